"""C10 -- event detection is sound, complete w.r.t. sampling, ordered and sharp.

Recorded-stream checker.

Observation points
  * the whole output stream of ``Orbit.iter(listeners=...)``, ``Ephem.iter(listeners=...)``,
    ``station.visibility(events=True)``, ``events_iterator`` and ``find_event`` is recorded at the API
    boundary (a plain ``list(...)`` of what the generator yields);
  * a wrapper on ``Speaker.listen`` (probe.attach) logs per step: the speaker, the current sample, the
    listeners, each listener's ``prev`` at entry, the events returned; wrappers on every listener
    class' ``__call__`` capture the values g(prev), g(cur) the library itself evaluated in ``check``.

Offline stream check (``check_stream``), with every watched quantity re-evaluated by the *oracle's
own* definition from the cartesian state (vmon.oracles.elements / shadow / geodesy):
  event <=> sign change between consecutive samples (the listener's own visibility condition
  considered); event date between the two samples; sharpness (sign change within +-3 us of the
  event, |g(event)| bounded by the local variation of g); label <=> physical direction of the crossing
  (forward AND backward iterations); chronological order of the whole stream; closed-form Kepler
  times of node / apside / anomaly crossings; umbra / penumbra times vs the conical shadow oracle;
  station stream = above-horizon samples U {AOS, LOS, MAX}; listener state at the first step of a
  re-used listener; events_iterator / find_event == filter of the recorded stream.
"""

import math
from datetime import datetime, timedelta as _td

import numpy as np

from .. import probe
from ..env import HarnessSkip
from ..oracles import elements as el
from ..oracles import geodesy
from ..oracles import shadow

RULE = (
    "case = one generated (orbit class, epoch, propagator, sampling step, set of 1..11 listener objects) run "
    "through 3-5 recorded iterations that re-use the same listener objects (forward, backward or re-sampled, "
    "a second orbit, optionally station.visibility / events_iterator / find_event / a repeat of the first "
    "iteration); distinct = digest of the generated inputs; non-trivial = the recorded streams contain at least "
    "one event and at least one judged (sample pair, listener) with and one without a sign change"
)
ASSUMPTIONS = [
    "oracle definitions of the watched quantities (latitude, radial rate, nu/E/M/u from the eccentricity and node "
    "vectors, elevation / elevation rate / range rate from an independent WGS-84 east-north-up computation, "
    "piecewise-linear periodic mask, cosine of the Sun angle, apparent-disk conical shadow functions) are the truth",
    "library public API used inside the oracle: StateVector.copy(frame=, form='cartesian') to express a state in the "
    "listener's frame / in ITRF (frame conversions are the subject of C02), get_body('Sun').propagate(date) for the Sun "
    "vector (C18), and speaker.propagate(date) (the very function the bisection uses) to obtain the trajectory a few "
    "microseconds around an event (propagators are the subject of C05-C09)",
    "Earth.mu, Earth.equatorial_radius, Earth.flattening, Sun.equatorial_radius of beyond.constants are data",
    "'listener's own visibility condition' is read as: AnomalyListener |wrapped difference at the current sample| < 2 rad; "
    "StationMaskListener / sight=True: elevation of the current sample > 0; StationMaxListener: elevation of the "
    "current sample > 0 and the crossing is a maximum in physical time (elevation rate + -> -)",
    "direction of a crossing = direction in physical time (an apside, a node, an AOS are the same physical event "
    "whichever way the iteration runs); chronological order = monotone in the direction of the iteration",
    "samples whose watched quantity is within 1e-9 (relative to its natural scale) of zero are don't-care: 'changes sign' is ambiguous there; "
    "so is a step in which _bisect returned the sample object itself as the event (crossing within the last microsecond before the sample, "
    "in practice an exact-zero sample): the sample then carries the event attribute and is yielded twice -- recorded, not judged",
    "an AnomalyListener event located at the +-pi wrap-around of the wrapped difference (seen only with Ephem(method='linear') on "
    "near-circular orbits) satisfies every clause of the statement literally and is recorded (counter observed:...), not judged",
    "umbra / penumbra: a sample closer than the statement's tolerance (0.01 s / 0.5 s) to the oracle's cone crossing may be classified either way",
    "backward iterations of KeplerNum / Ephem and exceptions of the numerical integrator itself are the subject of C08 / C06 and are not exercised here",
]

TWO_PI = 2 * math.pi
US = 1e-6

# ------------------------------------------------------------------------------------------------
# tolerances (each derived; see comments)
EPS_ANGLE = 1e-9  # rad. |g| below this => "don't care" sample. Oracle-vs-library rounding differences of an
#                   angle are ~1e-15 rad (probed <= 4e-15), so 1e-9 is > 1e5 x noise, while a regular sample lands
#                   inside with probability ~1e-9 (g sweeps ~1 rad per sample).
EPS_REL_RATE = 1e-9  # same, relative to |v| (radial rates) or |v|/rho (angular rates)
SHARP_US = 3  # "within a few microseconds": the bisection stops when the bracket is <= 1 us (timedelta.resolution)
KEPLER_TIME_TOL = 5e-6  # s. event is <= 1 us after the crossing + 1 us datetime rounding of the sample grid;
#                         float noise of the closed form is ~1e-10 s (probed); every realistic defect of the
#                         bisection (tolerance 1 ms / 1 s, wrong side) is >= 100 x larger
UMBRA_TOL = 0.01  # s, statement
PENUMBRA_TOL = 0.5  # s, statement
SHADOW_SEARCH = 120.0  # s: half-width in which the oracle's own crossing is searched around a reported one

KINDS = ("node", "apside", "anomaly", "signal", "mask", "max", "radial", "umbra", "penumbra", "terminator")


# ------------------------------------------------------------------------------------------------
def jobs(tier):
    from .. import repotests

    return _jobs(tier) + [repotests.job()]  # + the repository's own tests as a workload for invariant hooks


def _jobs(tier):
    n = 64 if tier == "quick" else 1040
    return [{"name": "streams", "n": n, "eop": "real", "timeout": 1500 if tier == "quick" else 7200},
            {"name": "long-steps", "n": 24 if tier == "quick" else 400, "eop": "zero"}]


def requirements(tier):
    from .. import repotests

    return dict(_requirements(tier), **repotests.MIN["C10"])


def _requirements(tier):
    k = 1 if tier == "quick" else 10
    req = {}
    for kind in KINDS:
        req[f"event:{kind}"] = 8 * k
        req[f"judged:{kind}"] = 300 * k
        req[f"sharp:{kind}"] = 8 * k
        req[f"label:{kind}"] = 8 * k
    req.update({"long-step:event:node": 40 * k, "long-step:event:apside": 40 * k, "long-step:11h": 2 * k, "long-step:5h": 2 * k,
                "fixed-frame-ephem:label:terminator": 60 * k, "fixed-frame-ephem:label:apside": 60 * k})
    for p in ("Kepler", "J2", "Sgp4", "KeplerNum", "Ephem"):
        req[f"prop:{p}"] = 6 * k
    req.update({
        "dir:backward": 10 * k, "dir:forward": 30 * k,
        "iteration:reused-listeners": 60 * k,
        "iteration:second-orbit": 20 * k,
        "iteration:starts-from-event-state": 10 * k, "iteration:ephem-later-start": 6 * k,
        "first-step-prev-checked": 100 * k,
        "step:multi-event": 20 * k,
        "step:multi-event-backward": 3 * k,
        "closed-form:node": 8 * k, "closed-form:apside": 8 * k, "closed-form:anomaly": 8 * k,
        "shadow-time:umbra": 6 * k, "shadow-time:penumbra": 6 * k,
        "visibility:streams": 6 * k, "visibility:elements": 300 * k, "visibility:station-events": 6 * k,
        "events_iterator:streams": 4 * k, "find_event:calls": 4 * k,
        "dontcare:zero-sample": 2 * k,
        "orbit:leo": 6 * k, "orbit:molniya": 4 * k, "orbit:gto": 4 * k, "orbit:meo": 4 * k, "orbit:leo-ecc": 4 * k,
        "nlisteners:1": 2 * k, "nlisteners:11": 2 * k,
        "order-checked": 150 * k,
        "stream==listen-output": 150 * k,
    })
    return req


# ------------------------------------------------------------------------------------------------
# small helpers
def sgn(x, eps=0.0):
    if x > eps:
        return 1
    if x < -eps:
        return -1
    return 0


def t_us(date, d0):
    """Exact integer microseconds of a Date (reference scale) since day d0."""
    return (int(date._d) - d0) * 86400_000_000 + int(round(float(date._s) * 1e6))


def frame_name(f):
    if f is None:
        return None
    return f if isinstance(f, str) else f.name


class Topo:
    """Oracle-side record of a ground station (own geodesy)."""

    def __init__(self, name, lat_deg, lon_deg, alt, mask, a, f):
        self.name = name
        self.lat_deg, self.lon_deg, self.alt = lat_deg, lon_deg, alt
        self.mask = mask  # (theta nodes, elevations) or None
        self.geo = geodesy.Station(math.radians(lat_deg), math.radians(lon_deg), alt, a, f)
        self.frame = None  # library TopocentricFrame

    def descr(self):
        return {"name": self.name, "latlonalt": [self.lat_deg, self.lon_deg, self.alt], "mask": self.mask}

    def look(self, rv_itrf):
        r = tuple(float(x) for x in rv_itrf[:3])
        v = tuple(float(x) for x in rv_itrf[3:])
        lk = self.geo.look(r, v)
        e, n, u, ve, vn, vu = lk["e"], lk["n"], lk["u"], lk["ve"], lk["vn"], lk["vu"]
        h2 = e * e + n * n
        h = math.sqrt(h2)
        rho2 = h2 + u * u
        # d/dt atan2(u, h)
        lk["el_rate"] = (vu * h - u * (e * ve + n * vn) / h) / rho2
        lk["theta"] = math.atan2(-e, n)  # library convention: counter-clockwise from north (x north, y west)
        lk["vrel"] = math.sqrt(ve * ve + vn * vn + vu * vu)
        return lk

    def mask_at(self, theta):
        return geodesy.mask_value(self.mask[0], self.mask[1], theta % TWO_PI)[0]


class Env:
    """Everything the oracle needs about one iteration."""

    def __init__(self, st, native, d0, direction, witness):
        self.st = st
        self.native = native  # name of the frame the speaker produces its states in
        self.d0 = d0
        self.direction = direction
        self.witness = witness
        self.speaker = None
        self.kepler = None  # closed-form data for a Kepler-propagated orbit
        self.mu = st["mu"]
        self.re = st["re"]
        self.rs = st["rs"]


class Pt:
    """A state of the stream (sample, event or auxiliary propagated point) with lazily computed
    oracle quantities."""

    __slots__ = ("env", "obj", "date", "t", "_cart", "_sun", "_look", "_elts", "_g")

    def __init__(self, env, obj):
        self.env = env
        self.obj = obj
        self.date = obj.date
        self.t = t_us(obj.date, env.d0)
        self._cart = {}
        self._sun = None
        self._look = {}
        self._elts = {}
        self._g = {}

    def cart(self, frame=None):
        key = frame or self.env.native
        c = self._cart.get(key)
        if c is None:
            o = self.obj
            if o.frame.name == key and o.form.name == "cartesian":
                c = probe.arr(o)
            else:
                # library public API (frame / form conversion: C01, C02)
                c = probe.arr(o.copy(frame=key, form="cartesian"))
            self._cart[key] = c
        return c

    def sun(self):
        """Sun position relative to the Earth's centre on the axes of the native frame (library API, C18)."""
        if self._sun is None:
            s = self.env.st["sun_body"].propagate(self.date).copy(frame=self.env.native, form="cartesian")
            self._sun = probe.arr(s)[:3]
        return self._sun

    def look(self, topo):
        lk = self._look.get(topo.name)
        if lk is None:
            lk = topo.look(self.cart("ITRF"))
            self._look[topo.name] = lk
        return lk

    def elts(self, frame=None):
        key = frame or self.env.native
        e = self._elts.get(key)
        if e is None:
            c = self.cart(key)
            e = el.classical(c[:3], c[3:], self.env.mu)
            self._elts[key] = e
        return e


# ------------------------------------------------------------------------------------------------
# oracle-side specification of one listener object
class Spec:
    def __init__(self, st, lis):
        from beyond.propagators import listeners as L

        self.lis = lis
        self.st = st
        t = type(lis)
        self.topo = None
        self.frame = None
        if t is L.LightListener:
            self.kind = "umbra" if lis.type == L.LightListener.UMBRA else "penumbra"
            self.frame = frame_name(lis.frame)
        elif t is L.TerminatorListener:
            self.kind = "terminator"
        elif t is L.NodeListener:
            self.kind = "node"
            self.frame = frame_name(lis.frame)
        elif t is L.ApsideListener:
            self.kind = "apside"
            self.frame = frame_name(lis.frame)
        elif t is L.AnomalyListener:
            self.kind = "anomaly"
            self.frame = frame_name(lis.frame)
            self.anomaly = lis.anomaly
            self.value = float(lis.value)
        elif t is L.StationSignalListener:
            self.kind = "signal"
            self.topo = st["topos"][lis.station.name]
            self.elev = float(lis.elev)
        elif t is L.StationMaskListener:
            self.kind = "mask"
            self.topo = st["topos"][lis.station.name]
        elif t is L.StationMaxListener:
            self.kind = "max"
            self.topo = st["topos"][lis.station.name]
        elif t is L.RadialVelocityListener:
            self.kind = "radial"
            fn = frame_name(lis.frame)
            if fn in st["topos"]:
                self.topo = st["topos"][fn]
            else:
                self.frame = fn
            self.sight = bool(lis.sight)
        else:
            raise ValueError(f"unknown listener type {t}")

    def descr(self):
        d = {"type": type(self.lis).__name__, "kind": self.kind}
        if self.frame:
            d["frame"] = self.frame
        if self.topo is not None:
            d["station"] = self.topo.descr()
        for k in ("anomaly", "value", "elev", "sight"):
            if hasattr(self, k):
                d[k] = getattr(self, k)
        return d

    # --- the watched quantity, oracle's own definition ------------------------------------------
    def g(self, pt):
        v = pt._g.get(id(self))
        if v is None:
            v = self._g(pt)
            pt._g[id(self)] = v
        return v

    def sign(self, pt):
        """(g, sign) with sign = 0 for a don't-care sample: |g| below the noise-safe floor, or (anomaly) within
        the floor of the +-pi wrap-around where the sign of the wrapped difference is ambiguous."""
        v = self.g(pt)
        e = self.eps(pt)
        if self.kind == "anomaly" and abs(v) > math.pi - e:
            return v, 0
        return v, sgn(v, e)

    def _g(self, pt):
        k = self.kind
        if k == "node":
            c = pt.cart(self.frame)
            return math.asin(max(-1.0, min(1.0, c[2] / math.sqrt(c[0] * c[0] + c[1] * c[1] + c[2] * c[2]))))
        if k == "apside":
            c = pt.cart(self.frame)
            return float(c[:3] @ c[3:]) / math.sqrt(float(c[:3] @ c[:3]))
        if k == "anomaly":
            e = pt.elts(self.frame)
            x = {"true": e["nu"], "mean": e["M"], "eccentric": e["E"], "aol": e["u"]}[self.anomaly]
            return el.wrap(x - self.value)
        if k == "signal":
            return pt.look(self.topo)["el"] - self.elev
        if k == "mask":
            lk = pt.look(self.topo)
            return lk["el"] - self.topo.mask_at(lk["theta"])
        if k == "max":
            return pt.look(self.topo)["el_rate"]
        if k == "radial":
            if self.topo is not None:
                return pt.look(self.topo)["range_rate"]
            c = pt.cart(self.frame)
            return float(c[:3] @ c[3:]) / math.sqrt(float(c[:3] @ c[:3]))
        if k in ("umbra", "penumbra"):
            return shadow.g(k, pt.cart()[:3], pt.sun(), pt.env.rs, pt.env.re)
        if k == "terminator":
            r, s = pt.cart()[:3], pt.sun()
            return float(r @ s) / math.sqrt(float(r @ r) * float(s @ s))
        raise ValueError(k)

    def eps(self, pt):
        """don't-care half-width of the watched quantity at this state."""
        k = self.kind
        if k == "anomaly" and self.anomaly != "aol":
            # nu, E, M are measured from the pericentre: conditioning 1/e of the *osculating* eccentricity (J2 / SGP4
            # short-period terms can bring it well below the mean e >= 1e-4 of the quantifier); rounding noise of a
            # position is ~1e-16 relative, so 1e-13/e keeps the 1000 x margin of EPS_ANGLE at e = 1e-4
            return max(EPS_ANGLE, 1e-13 / max(pt.elts(self.frame)["e"], 1e-12))
        if k in ("node", "anomaly", "signal", "mask", "terminator", "umbra", "penumbra"):
            return EPS_ANGLE
        if k == "apside" or (k == "radial" and self.topo is None):
            c = pt.cart(self.frame)
            return EPS_REL_RATE * math.sqrt(float(c[3:] @ c[3:]))
        lk = pt.look(self.topo)
        if k == "radial":
            return EPS_REL_RATE * lk["vrel"]
        return EPS_REL_RATE * lk["vrel"] / lk["range"]  # max: angular rate

    def visible(self, cur):
        """Listener's own visibility condition at the current sample: True / False / None (don't care)."""
        k = self.kind
        if k == "anomaly":
            a = abs(self.g(cur))
            if abs(a - 2.0) < EPS_ANGLE:
                return None
            return a < 2.0
        if k in ("mask", "max") or (k == "radial" and self.sight):
            if self.topo is not None:
                elev = cur.look(self.topo)["el"]
            else:
                c = cur.cart(self.frame)
                elev = math.asin(c[2] / math.sqrt(float(c[:3] @ c[:3])))
            if abs(elev) < EPS_ANGLE:
                return None
            return elev > 0
        return True


# ------------------------------------------------------------------------------------------------
def setup(ctx, job):
    import random
    import warnings

    from beyond import constants
    from beyond.env.solarsystem import get_body
    from beyond.frames.stations import create_station
    from beyond.propagators import listeners as L

    warnings.filterwarnings("ignore")
    st = {"probes": [], "log": [], "gcache": {}, "listen_depth": 0}
    st["mu"] = float(constants.Earth.mu)
    st["re"] = float(constants.Earth.equatorial_radius)
    st["rs"] = float(constants.Sun.equatorial_radius)
    st["flat"] = float(constants.Earth.flattening)
    st["sun_body"] = get_body("Sun")
    st["earth_body"] = get_body("Earth")

    # --- oracle self-checks (a wrong oracle must not be able to produce a verdict)
    ok, worst = geodesy.selfcheck()
    if not ok:
        raise RuntimeError(f"geodesy oracle self-check failed: {worst}")
    bad = shadow.self_test(random.Random(12345), st["rs"], st["re"], 149597870700.0, n=3000)
    if bad:
        raise RuntimeError(f"shadow oracle: the two formulations disagree on {bad} points")

    # --- a bounded pool of stations (global frame registry: created once per subprocess)
    srng = random.Random(f"{ctx.seed}:{job['name']}:stations")
    topos = {}
    pool = []
    for k in range(10):
        lat = [43.6, -33.9, 0.5, 69.6, -77.8, 28.5, 5.2, -25.9, 52.0, 13.7][k] + srng.uniform(-1, 1)
        lon = srng.uniform(-180.0, 180.0)
        alt = srng.choice([0.0, 172.0, 2300.0, -30.0]) if k else 172.0
        mask = None
        if k % 2 == 1:
            nn = srng.randint(2, 8)
            first_zero = srng.random() < 0.4
            inner = sorted(srng.uniform(0.05, TWO_PI - 0.05) for _ in range(nn))
            az = ([0.0] if first_zero else []) + inner + [TWO_PI]
            elv = [srng.uniform(0.02, 0.35) for _ in az]
            if first_zero:
                elv[0] = elv[-1]
            mask = (az, elv)
        name = f"C10S{k}"
        topo = Topo(name, lat, lon, alt, mask, st["re"], st["flat"])
        topo.frame = create_station(name, (lat, lon, alt), mask=[list(mask[0]), list(mask[1])] if mask else None)
        topos[name] = topo
        pool.append(topo)
    st["topos"] = topos
    st["pool"] = pool
    # one TerminatorListener per subprocess (its constructor registers a frame named 'SunFrame')
    st["terminator"] = L.TerminatorListener()

    # --- hooks
    def call_post(args, kw, res):
        if st["listen_depth"]:
            try:
                st["gcache"][(id(args[0]), id(args[1]))] = float(res)
            except Exception:
                pass

    for cls in (L.LightListener, L.TerminatorListener, L.NodeListener, L.ApsideListener, L.AnomalyListener,
                L.StationSignalListener, L.StationMaskListener, L.StationMaxListener, L.RadialVelocityListener):
        st["probes"].append(probe.attach(cls, "__call__", post=call_post))

    def listen_pre(args, kw):
        speaker, orb, listeners = args[0], args[1], args[2]
        if isinstance(listeners, L.Listener):
            listeners = [listeners]
        listeners = list(listeners)
        st["gcache"].clear()
        st["listen_depth"] += 1
        st["cur_rec"] = {"speaker": speaker, "orb": orb, "listeners": listeners, "prevs": [l.prev for l in listeners]}

    def listen_post(args, kw, res):
        rec = st.pop("cur_rec")
        st["listen_depth"] -= 1
        rec["events"] = list(res)
        gc = st["gcache"]
        rec["glib"] = [
            (gc.get((id(l), id(p))) if p is not None else None, gc.get((id(l), id(rec["orb"]))))
            for l, p in zip(rec["listeners"], rec["prevs"])
        ]
        gc.clear()
        st["log"].append(rec)
        ctx.count("hook:listen")

    st["probes"].append(probe.attach(L.Speaker, "listen", pre=listen_pre, post=listen_post))
    return st


def finish(ctx, job, st):
    for p in st["probes"]:
        p.remove()


# ------------------------------------------------------------------------------------------------
# workload generation
ORBIT_CLASSES = ("leo", "leo-ecc", "meo", "gto", "molniya", "leo-dawn-dusk", "high-apogee-in-shadow", "leo-zero-start")
PROPS = ("Kepler", "J2", "Sgp4", "KeplerNum", "Ephem")
STEPS = (10, 30, 60, 120, 180, 300, 600)


def crude_sun_dir(mjd):
    """Unit vector to the Sun, mean-longitude model (+-2 deg). Only used to *generate* geometries."""
    d = mjd - 51544.5
    lam = math.radians((280.46 + 0.9856474 * d) % 360.0)
    eps = math.radians(23.439)
    return np.array([math.cos(lam), math.cos(eps) * math.sin(lam), math.sin(eps) * math.sin(lam)])


def gen_date(rng):
    """A UTC epoch inside the IERS tables, >= 2 days away from any possible leap second."""
    while True:
        mjd = rng.randint(44300, 57700)
        dt = datetime(1858, 11, 17) + _td(days=mjd)
        doy = dt.timetuple().tm_yday
        if doy <= 3 or doy >= 363 or 179 <= doy <= 185:
            continue
        us = rng.randrange(0, 86400_000_000) if rng.random() < 0.5 else rng.randrange(0, 86400) * 1_000_000
        return dt + _td(microseconds=us), mjd + us / 86400e6


def gen_orbit(rng, cls, mjd):
    """dict(a, e, i, raan, argp, nu) by class; own construction."""
    re = 6378136.3
    i = rng.choice([rng.uniform(0.05, math.pi - 0.05), rng.uniform(0.3, 1.8), rng.uniform(0.01, 0.05)][:2 + (rng.random() < 0.15)])
    raan = rng.uniform(0, TWO_PI)
    argp = rng.uniform(0, TWO_PI)
    nu = rng.uniform(0, TWO_PI)
    if cls in ("leo", "leo-dawn-dusk", "leo-zero-start"):
        a = re + rng.uniform(300e3, 1200e3)
        e = math.exp(rng.uniform(math.log(1e-4), math.log(0.02)))
        e = min(e, 1 - (re + 180e3) / a)
    elif cls == "leo-ecc":
        rp = re + rng.uniform(250e3, 1500e3)
        e = rng.uniform(0.02, 0.3)
        a = rp / (1 - e)
    elif cls == "meo":
        a = rng.uniform(12000e3, 30000e3)
        e = rng.uniform(1e-3, 0.1)
    elif cls == "gto":
        rp = re + rng.uniform(250e3, 700e3)
        ra = rng.uniform(35000e3, 44000e3)
        a = (rp + ra) / 2
        e = (ra - rp) / (ra + rp)
        i = rng.uniform(0.05, 0.6)
    elif cls == "molniya":
        a = rng.uniform(26000e3, 27000e3)
        e = rng.uniform(0.60, 0.74)
        e = min(e, 1 - (re + 300e3) / a)
        i = math.radians(63.4) + rng.uniform(-0.03, 0.03)
        argp = math.radians(270) + rng.uniform(-0.2, 0.2)
    elif cls == "high-apogee-in-shadow":
        rp = re + rng.uniform(400e3, 3000e3)
        ra = rng.uniform(25000e3, 48000e3)
        a = (rp + ra) / 2
        e = (ra - rp) / (ra + rp)
    else:
        raise ValueError(cls)
    if cls == "leo-dawn-dusk":
        # orbit normal within a few degrees of the Sun direction (beta ~ 84..90 deg)
        s = crude_sun_dir(mjd)
        tilt = rng.uniform(0.0, 0.1)
        ax = np.cross(s, [0.3, -0.5, 0.8])
        ax /= np.linalg.norm(ax)
        n = s * math.cos(tilt) + ax * math.sin(tilt)
        if rng.random() < 0.5:
            n = -n
        i = math.acos(max(-1, min(1, n[2])))
        raan = math.atan2(n[0], -n[1]) % TWO_PI
        if not (0.02 < i < math.pi - 0.02):
            i = min(max(i, 0.02), math.pi - 0.02)
    if cls == "high-apogee-in-shadow":
        # apogee direction ~ anti-Sun: perigee direction p = +sun; choose the plane containing it
        s = crude_sun_dir(mjd)
        p = s + 0.06 * np.array([rng.gauss(0, 1) for _ in range(3)])
        p /= np.linalg.norm(p)
        w = np.cross(p, [rng.gauss(0, 1) for _ in range(3)])
        w /= np.linalg.norm(w)  # orbit normal, perpendicular to p
        i = math.acos(max(-1, min(1, w[2])))
        if i < 0.05 or i > math.pi - 0.05:
            raise HarnessSkip()
        raan = math.atan2(w[0], -w[1]) % TWO_PI
        nd = np.array([math.cos(raan), math.sin(raan), 0.0])
        argp = math.atan2(float(np.cross(nd, p) @ w), float(nd @ p)) % TWO_PI
        nu = rng.uniform(math.pi - 1.2, math.pi - 0.3)  # before apogee: the shadow passage lies ahead
    if cls == "leo-zero-start":
        which = rng.choice(["node", "apside", "both"])
        if which in ("node", "both"):
            nu = (-argp) % TWO_PI if which == "node" else 0.0
            if which == "both":
                argp = 0.0
        else:
            nu = rng.choice([0.0, math.pi])
    return dict(a=a, e=e, i=i, raan=raan, argp=argp, nu=nu, cls=cls)


def make_orbit(st, oc, date, prop, rng):
    """Library Orbit for generated elements + description of the propagator."""
    from beyond.dates import Date, timedelta
    from beyond.orbits import Orbit
    from beyond.propagators.kepler import Kepler
    from beyond.propagators.j2 import J2
    from beyond.propagators.keplernum import KeplerNum

    r, v = el.kep2cart(oc["a"], oc["e"], oc["i"], oc["raan"], oc["argp"], oc["nu"], st["mu"])
    cart = [float(x) for x in r] + [float(x) for x in v]
    pd = {"prop": prop}
    if prop in ("Kepler", "J2"):
        orb = Orbit(cart, date, "cartesian", "EME2000", Kepler() if prop == "Kepler" else J2())
        native = "EME2000"
    elif prop == "Sgp4":
        # the generated elements are used as the TLE mean elements
        E = 2 * math.atan2(math.sqrt(1 - oc["e"]) * math.sin(oc["nu"] / 2), math.sqrt(1 + oc["e"]) * math.cos(oc["nu"] / 2))
        M = (E - oc["e"] * math.sin(E)) % TWO_PI
        n = math.sqrt(st["mu"] / oc["a"] ** 3)
        bstar = rng.choice([0.0, 1e-5, 3e-4])
        orb = Orbit([oc["i"], oc["raan"], oc["e"], oc["argp"], M, n], date, "TLE", "TEME", "Sgp4",
                    bstar=bstar, ndot=0.0, ndotdot=0.0, element_nb=1, revolutions=1, name="C10", norad_id=99999,
                    cospar_id="2010-001A", type=0)
        pd["bstar"] = bstar
        native = "TEME"
    elif prop == "KeplerNum":
        h = rng.choice([30, 60, 120])
        method = rng.choice(["rk4", "rk4", "dopri54", "rkf54"])
        pd.update(h=h, method=method)
        orb = Orbit(cart, date, "cartesian", "EME2000", KeplerNum(timedelta(seconds=h), st["earth_body"], method=method, tol=1e-3))
        native = "EME2000"
    else:
        raise ValueError(prop)
    return orb, native, pd, cart


def gen_listeners(st, rng, n, idx):
    """n listener objects drawn from all types (library objects)."""
    from beyond.propagators import listeners as L

    pool = st["pool"]
    s1 = rng.choice(pool)
    s2 = rng.choice([p for p in pool if p.mask is not None])
    makers = {
        "umbra": lambda: L.LightListener(L.LightListener.UMBRA, frame=rng.choice([None, None, "EME2000"])),
        "penumbra": lambda: L.LightListener(L.LightListener.PENUMBRA, frame=rng.choice([None, None, "EME2000"])),
        "terminator": lambda: st["terminator"],
        "node": lambda: L.NodeListener(frame=rng.choice([None, None, "EME2000", "TEME", "ITRF"])),
        "apside": lambda: L.ApsideListener(frame=rng.choice([None, None, "ITRF"])),
        "anomaly": lambda: L.AnomalyListener(rng.choice([rng.uniform(-math.pi, TWO_PI), rng.uniform(0, TWO_PI), 0.0, math.pi, 1.0]),
                                             anomaly=rng.choice(["true", "mean", "eccentric", "aol"]),
                                             frame=rng.choice([None, None, "EME2000"])),
        "signal": lambda: L.StationSignalListener(s1.frame, elev=rng.choice([0, 0, math.radians(5), math.radians(10)])),
        "mask": lambda: L.StationMaskListener(s2.frame),
        "max": lambda: L.StationMaxListener(rng.choice([s1, s2]).frame),
        "radial": lambda: L.RadialVelocityListener(rng.choice([s1, s2]).frame, sight=rng.random() < 0.5),
        "signal2": lambda: L.StationSignalListener(s2.frame),
    }
    order = list(KINDS)
    # rotate so that every kind is the *first* choice regularly, then fill up
    k0 = idx % len(order)
    order = order[k0:] + order[:k0]
    chosen = order[:n] if n <= len(order) else order + ["signal2"]
    if n < len(order):
        rest = order[n:]
        # replace some by random others so that combinations vary
        for j in range(len(chosen)):
            if j and rng.random() < 0.3:
                chosen[j] = rng.choice(rest)
    rng.shuffle(chosen)
    out = []
    seen_term = False
    for c in chosen:
        if c == "terminator":
            if seen_term:
                c = "node"
            seen_term = True
        out.append(makers[c]())
    return out


# ------------------------------------------------------------------------------------------------
def lib_exception(ctx, key, env, exc, what):
    ctx.violation(key, dict(env.witness, exc=repr(exc)), f"{what} raised {exc!r}")


def long_step_case(ctx, job, idx, rng, st):
    """Sampling steps of hours ("every sampling step"): node / apside events of a Kepler or J2 orbit must still sit
    within a few microseconds of the sign change of the watched quantity, and the stream stays chronological."""
    from beyond.dates import Date, timedelta
    from beyond.orbits import Orbit
    from beyond.propagators import listeners as L
    from beyond.propagators.kepler import Kepler
    from beyond.propagators.j2 import J2
    from ..oracles import elements as el

    mu = 3.986004418e14
    a = rng.uniform(2.0e7, 4.5e7)
    e = rng.uniform(0.3, 0.74)
    if a * (1 - e) < 6.7e6:
        e = 1 - 6.9e6 / a
    r, v = el.kep2cart(a, e, rng.uniform(0.3, 2.8), rng.uniform(0, 6.28), rng.uniform(0, 6.28), rng.uniform(0, 6.28), mu)
    prop = (Kepler, J2)[idx % 2]
    step_h = (1, 3, 5, 7, 11)[(idx // 2) % 5]
    epoch = Date(2018, 4, 5, 16, 50) + timedelta(seconds=rng.uniform(0, 86400 * 300))
    orb = Orbit([float(x) for x in r] + [float(x) for x in v], epoch, "cartesian", "EME2000", prop())
    w = {"a": a, "e": e, "cart0": [float(x) for x in r] + [float(x) for x in v], "epoch": str(epoch), "propagator": prop.__name__, "step_h": step_h}
    ctx.case(w)
    ctx.count(f"long-step:{step_h}h")
    days = max(4, step_h)
    try:
        stream = list(orb.iter(stop=timedelta(days=days), step=timedelta(hours=step_h), listeners=[L.NodeListener(), L.ApsideListener()]))
    except Exception as exc:
        ctx.violation("C10/iteration-raises-long-step", dict(w, exc=repr(exc)), repr(exc))
        return

    def g(kind, sv):
        c = probe.arr(sv.copy(form="cartesian"))
        return float(c[2]) if kind == "node" else float(c[:3] @ c[3:])  # z (sign of the latitude) / r.v (sign of the radial rate)

    prev = None
    for p in stream:
        if prev is not None:
            ctx.expect(p.date >= prev.date, "C10/order-long-step", dict(w, prev=str(prev.date), cur=str(p.date)), "stream not chronological")
        prev = p
        if p.event is None:
            continue
        kind = "node" if "Node" in p.event.info else "apside"
        ctx.count(f"long-step:event:{kind}")
        vals = [g(kind, orb.propagate(p.date + timedelta(microseconds=us))) for us in (-6, -3, 0, 3, 6)]
        change = any((x > 0) != (y > 0) for x, y in zip(vals, vals[1:]))
        ctx.expect(change, f"C10/event-not-at-sign-change-{kind}-long-step", dict(w, event=str(p.date), info=p.event.info, g_around=vals, offsets_us=[-6, -3, 0, 3, 6]),
                   f"{p.event.info} at {p.date} with a {step_h} h sampling step: the watched quantity does not change sign within +-6 us: {vals}")
    fixed_frame_labels(ctx, w, orb, rng)


def fixed_frame_labels(ctx, w, orb, rng):
    """The same high orbit tabulated and HELD IN AN EARTH-FIXED FRAME (a ground-track product), iterated with terminator, node
    and apside listeners: each label must be the direction in which the watched quantity crosses zero, evaluated here on the
    inertial trajectory two seconds before and after the event (cos(Sun, satellite), z, r.v do not depend on the axes)."""
    from beyond.dates import timedelta
    from beyond.env.solarsystem import get_body
    from beyond.propagators import listeners as L

    fixed = rng.choice(["ITRF", "PEF"])
    try:
        eph = orb.ephem(stop=timedelta(days=2), step=timedelta(minutes=10))
        eph.frame = fixed
        stream = list(eph.iter(listeners=[L.TerminatorListener(), L.NodeListener(frame=fixed) if rng.random() < 0.5 else L.NodeListener(), L.ApsideListener()]))
    except Exception as exc:
        ctx.violation("C10/iteration-raises-Ephem", dict(w, held_in=fixed, exc=repr(exc)), f"ephemeris held in {fixed}: {exc!r}")
        return
    sun = get_body("Sun")
    ctx.count("fixed-frame-ephem:streams")

    def g(kind, date):
        c = probe.arr(orb.propagate(date).copy(form="cartesian", frame="EME2000"))
        if kind == "terminator":
            s_ = probe.arr(sun.propagate(date).copy(frame="EME2000", form="cartesian"))[:3]
            return float(c[:3] @ s_) / float(np.linalg.norm(s_) * np.linalg.norm(c[:3]))
        return float(c[2]) if kind == "node" else float(c[:3] @ c[3:])

    for p in stream:
        if p.event is None:
            continue
        info = p.event.info
        kind = "terminator" if "Terminator" in info else "node" if "Node" in info else "apside" if "apsis" in info else None
        if kind is None or (kind == "node" and fixed != "EME2000" and False):
            continue
        if p.date - eph.start < timedelta(seconds=30) or eph.stop - p.date < timedelta(seconds=30):
            continue
        if kind == "node":
            continue  # the node of an Earth-fixed frame is not the inertial one (polar motion, precession): labels of C10's streams job
        before, after = g(kind, p.date - timedelta(seconds=2)), g(kind, p.date + timedelta(seconds=2))
        if (before > 0) == (after > 0):
            ctx.count("fixed-frame-ephem:no-sign-change-within-2s (sharpness is judged by the streams job)")
            continue
        up = after > before
        exp = {"terminator": ("Day Terminator", "Night Terminator"), "apside": ("Periapsis", "Apoapsis")}[kind][0 if up else 1]
        ctx.count("fixed-frame-ephem:label:" + kind)
        ctx.expect(info == exp, f"C10/label-{kind}-ephemeris-held-in-an-earth-fixed-frame", dict(w, held_in=fixed, event=str(p.date), label=info, expected=exp,
                                                                                                   g_before=before, g_after=after,
                                                                                                   r_km=float(np.linalg.norm(probe.arr(p.copy(form="cartesian"))[:3])) / 1e3),
                   f"ephemeris held in {fixed}: event at {p.date} labelled {info!r}, the watched quantity goes {'up' if up else 'down'} ({exp!r})")


def run_case(ctx, job, idx, rng, st):
    if job["name"] == "long-steps":
        long_step_case(ctx, job, idx, rng, st)
        return
    from beyond.dates import Date, timedelta
    from beyond.propagators import listeners as L

    prop = PROPS[idx % len(PROPS)]
    ocls = ORBIT_CLASSES[(idx // len(PROPS)) % len(ORBIT_CLASSES)]
    if prop == "Sgp4" and ocls == "leo-zero-start":
        ocls = "leo"
    dt, mjd = gen_date(rng)
    date = Date(dt)
    oc = gen_orbit(rng, ocls, mjd)
    nlis = [1, 2, 3, 5, 8, 11, 4, 11, 6, 2][(idx // 3) % 10]
    listeners = gen_listeners(st, rng, nlis, idx)
    if ocls == "leo-zero-start":
        # the initial state sits exactly on a node / an apside / the watched anomaly value: the first sample of
        # these listeners is an (almost) exact zero -- the false-alarm trap of DESIGN section 6
        from beyond.propagators import listeners as _L

        zero = [_L.NodeListener(), _L.ApsideListener(), _L.AnomalyListener(oc["nu"] % TWO_PI, anomaly="true"),
                _L.AnomalyListener((oc["nu"] + oc["argp"]) % TWO_PI, anomaly="aol")]
        listeners = (zero + listeners)[:max(nlis, 4)]
        nlis = len(listeners)
    base_prop = prop if prop != "Ephem" else rng.choice(["Kepler", "Sgp4", "J2"])
    orb, native, pd, cart = make_orbit(st, oc, date, base_prop, rng)

    period = TWO_PI * math.sqrt(oc["a"] ** 3 / st["mu"])
    if ocls in ("leo", "leo-ecc", "leo-dawn-dusk", "leo-zero-start"):
        step = rng.choice(STEPS)
    else:
        step = rng.choice(STEPS[2:])
    nsteps = rng.randint(70, 150)
    if prop in ("KeplerNum",):
        nsteps = rng.randint(50, 110)
    span = step * nsteps
    # keep at least ~0.6 revolution when it is affordable, never more than 36 h
    if span < 0.6 * period and step >= 60:
        nsteps = min(200, int(0.6 * period / step) + 1)
        span = step * nsteps
    span = min(span, 36 * 3600)
    nsteps = span // step
    span = nsteps * step
    if rng.random() < 0.3:
        span += rng.randrange(1, step)  # the step does not divide the span

    specs = [Spec(st, l) for l in listeners]
    orbit_class_counter = {"leo-dawn-dusk": "leo", "leo-zero-start": "leo", "high-apogee-in-shadow": "gto"}.get(ocls, ocls)
    descr = {
        "prop": prop, "base_prop": base_prop, "orbit": oc, "date": str(dt), "cart": cart, "step": step, "span": span,
        "listeners": [s.descr() for s in specs], "propagator": pd,
    }
    ctx.count(f"prop:{prop}")
    ctx.count(f"orbit:{orbit_class_counter}")
    ctx.count(f"orbit-class:{ocls}")
    ctx.count(f"nlisteners:{nlis}")
    ctx.count(f"step:{step}s")

    d0 = int(date._d)
    tstep = timedelta(seconds=step)
    tspan = timedelta(seconds=span)
    stats = {"events": 0, "judged_change": 0, "judged_nochange": 0}

    cur = {"native": native}

    def mkenv(direction, tag, native_=None):
        native_ = native_ or cur["native"]
        w = {"iteration": tag, "prop": prop, "base_prop": base_prop, "propagator": pd, "orbit": oc, "cart0": cart, "epoch": str(dt),
             "frame0": native_, "step_s": step, "span_s": span, "direction": direction}
        return Env(st, native_, d0, direction, w)

    # ------------------------------------------------------------------ iteration 1: forward
    mode = rng.choice(["range", "range", "dates-list", "dates-range"])
    if prop == "KeplerNum":
        mode = rng.choice(["range", "native-step"])
    ephem = None
    if prop == "Ephem":
        estep = rng.choice([s for s in (15, 30, 60, 120, 180) if s <= max(15, step)])
        emethod = "linear" if rng.random() < 0.12 else "lagrange"
        ephem = orb.ephem(start=date, stop=tspan + timedelta(seconds=estep), step=timedelta(seconds=estep))
        ephem.method = emethod
        if idx % 3 == 1:
            # the ephemeris is held in an Earth-fixed frame (a ground-track product): the events are those of the same
            # trajectory, their labels those of the same crossings
            ephem.frame = rng.choice(["ITRF", "PEF"])
            cur["native"] = ephem.frame.name
            pd.update(ephem_frame=cur["native"])
            ctx.count("ephem:held-in-an-earth-fixed-frame")
        pd.update(ephem_step=estep, ephem_method=emethod)
        mode = rng.choice(["range", "native-step", "dates-list"])
        ctx.count(f"ephem:{emethod}")
    ctx.count(f"mode:{mode}")

    def iterate(direction, mode_, env, listeners_):
        """One recorded iteration; returns (stream, log)."""
        st["log"].clear()
        st["listen_depth"] = 0
        st.pop("cur_rec", None)
        if direction > 0:
            a, b, s_ = date, date + tspan, tstep
        else:
            a, b, s_ = date + tspan, date, (tstep if rng.random() < 0.5 else -tstep)
        target = ephem if prop == "Ephem" else orb
        if mode_ == "range":
            kw = dict(start=a, stop=b, step=s_)
            if prop == "Ephem":
                kw = dict(start=a, stop=b, step=tstep)
            elif direction > 0 and rng.random() < 0.3:
                kw = dict(stop=tspan, step=s_)
        elif mode_ == "native-step":
            kw = dict(stop=b) if prop == "KeplerNum" else dict()
        elif mode_ == "dates-list":
            kw = dict(dates=list(Date.range(a, b, s_ if (direction > 0 or s_.total_seconds() < 0) else -s_)))
        else:
            kw = dict(dates=Date.range(a, b, s_ if (direction > 0 or s_.total_seconds() < 0) else -s_))
        env.witness["call"] = {k: str(v) if not isinstance(v, list) else f"list of {len(v)} dates" for k, v in kw.items()}
        env.witness["mode"] = mode_
        stream = list(target.iter(listeners=listeners_, **kw))
        log = list(st["log"])
        st["log"].clear()
        return stream, log

    env1 = mkenv(+1, "1:forward")
    if base_prop == "Kepler" and prop in ("Kepler",):
        env1.kepler = kepler_data(st, cart, t_us(date, d0))
    try:
        stream1, log1 = iterate(+1, mode, env1, listeners)
    except Exception as exc:
        ctx.case(descr, nontrivial=False)
        if prop == "KeplerNum":
            # failures of the numerical integrator itself (step-size control, short spans) are C06/C08's subject
            ctx.count("skipped:keplernum-iteration-raises")
            raise HarnessSkip()
        lib_exception(ctx, f"C10/iteration-raises-{prop}", env1, exc, "forward iteration with listeners")
        return
    ctx.count("dir:forward")
    check_stream(ctx, st, env1, stream1, log1, specs, stats)
    recorded1 = [(t_us(x.date, d0), x.event.info if x.event else None) for x in stream1]

    # ------------------------------------------------------------------ iteration 2: same listener objects
    if prop in ("Kepler", "J2", "Sgp4"):
        env2 = mkenv(-1, "2:backward-reused-listeners")
        if prop == "Kepler":
            env2.kepler = env1.kepler
        try:
            stream2, log2 = iterate(-1, rng.choice(["range", "range", "dates-list"]), env2, listeners)
        except Exception as exc:
            lib_exception(ctx, f"C10/iteration-raises-backward-{prop}", env2, exc, "backward iteration with listeners")
            stream2 = None
        if stream2 is not None:
            ctx.count("dir:backward")
            ctx.count("iteration:reused-listeners")
            check_stream(ctx, st, env2, stream2, log2, specs, stats)
    else:
        # numerical / ephemeris: forward again with another sampling (backward iteration of these is C08's subject)
        env2 = mkenv(+1, "2:forward-resampled-reused-listeners")
        mode2 = "range" if mode != "range" else "native-step"
        try:
            stream2, log2 = iterate(+1, mode2, env2, listeners)
        except Exception as exc:
            lib_exception(ctx, f"C10/iteration-raises-{prop}", env2, exc, "second forward iteration with listeners")
            stream2 = None
        if stream2 is not None:
            ctx.count("dir:forward")
            ctx.count("iteration:reused-listeners")
            check_stream(ctx, st, env2, stream2, log2, specs, stats)

    # ------------------------------------------------------------------ iteration 3: another orbit, same listeners
    ocls3 = rng.choice(["leo", "leo-ecc", "molniya", "meo"])
    oc3 = gen_orbit(rng, ocls3, mjd)
    prop3 = rng.choice(["Kepler", "Kepler", "J2", "Sgp4"])
    date3 = date + timedelta(seconds=rng.choice([0, 0, 3600, -7200, 86400 * 3]))
    orb3, native3, pd3, cart3 = make_orbit(st, oc3, date3, prop3, rng)
    step3 = rng.choice([60, 120, 180, 300] if ocls3 in ("leo", "leo-ecc") else [180, 300, 600])
    n3 = rng.randint(30, 60)
    dir3 = rng.choice([1, 1, -1])
    env3 = Env(st, native3, d0, dir3, {"iteration": "3:second-orbit-reused-listeners", "prop": prop3, "propagator": pd3, "orbit": oc3,
                                      "cart0": cart3, "epoch": str(date3), "frame0": native3, "step_s": step3, "span_s": step3 * n3,
                                      "direction": dir3})
    if prop3 == "Kepler":
        env3.kepler = kepler_data(st, cart3, t_us(date3, d0))
    st["log"].clear()
    try:
        if dir3 > 0:
            stream3 = list(orb3.iter(start=date3, stop=timedelta(seconds=step3 * n3), step=timedelta(seconds=step3), listeners=listeners))
        else:
            stream3 = list(orb3.iter(start=date3 + timedelta(seconds=step3 * n3), stop=date3, step=timedelta(seconds=step3), listeners=listeners))
    except Exception as exc:
        lib_exception(ctx, f"C10/iteration-raises-{prop3}", env3, exc, "iteration of a second orbit with re-used listeners")
        stream3 = None
    log3 = list(st["log"])
    st["log"].clear()
    if stream3 is not None:
        ctx.count("dir:forward" if dir3 > 0 else "dir:backward")
        ctx.count("iteration:reused-listeners")
        ctx.count("iteration:second-orbit")
        ctx.count(f"prop:{prop3}")
        check_stream(ctx, st, env3, stream3, log3, specs, stats)

    # ------------------------------------------------------------------ repeat of iteration 1 (differential history)
    if idx % 3 == 0 and mode != "native-step":
        env4 = mkenv(+1, "4:repeat-of-1-after-other-uses")
        st["log"].clear()
        rng_state = rng.getstate()
        try:
            # same call as iteration 1 (mode-specific arguments are rebuilt the same way except the random 'stop as timedelta' variant)
            target = ephem if prop == "Ephem" else orb
            if mode == "range":
                stream4 = list(target.iter(start=date, stop=date + tspan, step=tstep, listeners=listeners))
            else:
                stream4 = list(target.iter(dates=list(Date.range(date, date + tspan, tstep)), listeners=listeners))
        except Exception as exc:
            lib_exception(ctx, f"C10/iteration-raises-{prop}", env4, exc, "repeat of the first iteration")
            stream4 = None
        rng.setstate(rng_state)
        st["log"].clear()
        if stream4 is not None:
            ctx.count("iteration:reused-listeners")
            rec4 = [(t_us(x.date, d0), x.event.info if x.event else None) for x in stream4]
            ref = recorded1
            if mode == "range":
                pass
            ev4 = [r for r in rec4 if r[1] is not None]
            ev1 = [r for r in ref if r[1] is not None]
            # samples: the 'dates-*' modes exclude the stop date, 'range' includes it: compare events in the common span
            tmax = min(max(r[0] for r in rec4), max(r[0] for r in ref))
            ev4 = [r for r in ev4 if r[0] <= tmax]
            ev1 = [r for r in ev1 if r[0] <= tmax]
            ctx.expect(ev4 == ev1, "C10/reused-listeners-change-the-stream",
                       dict(env4.witness, first=ev1[:40], repeat=ev4[:40], listeners=[s.descr() for s in specs]),
                       "the same iteration with the same (meanwhile re-used) listener objects produced other events")
            ctx.count("differential:repeat")

    # ------------------------------------------------------------------ iteration 5: starts from a state that carries an event
    # (a state taken out of an earlier stream is the natural start of the next search: "from the last AOS on ...")
    evs1 = [x for x in stream1 if getattr(x, "event", None) is not None]
    if base_prop in ("Kepler", "J2") and prop != "Ephem" and evs1:
        from beyond.propagators import get_propagator

        ev0 = rng.choice(evs1)
        start5 = ev0.copy()
        if not hasattr(start5, "iter"):
            start5 = start5.as_orbit(get_propagator(base_prop)())
        elif rng.random() < 0.5:
            start5.propagator = get_propagator(base_prop)()
        ctx.expect(start5.event is not None, "C10/harness-start-state-lost-its-event", {}, "harness: the copy of an event state carries no event")
        n5 = rng.randint(20, 50)
        dir5 = rng.choice([1, 1, -1])
        env5 = Env(st, frame_name(start5.frame), d0, dir5,
                   {"iteration": "5:starts-from-an-event-bearing-state", "prop": base_prop, "propagator": pd, "orbit": oc, "cart0": cart,
                    "epoch": str(dt), "start_state": {"date": str(start5.date), "event": str(ev0.event.info), "form": start5.form.name,
                                                      "frame": frame_name(start5.frame)},
                    "frame0": frame_name(start5.frame), "step_s": step, "span_s": step * n5, "direction": dir5,
                    "call": "ev = <event state of iteration 1>.copy(); ev.iter(stop=timedelta(+-span), step=timedelta(+-step), listeners=same)"})
        st["log"].clear()
        try:
            stream5 = list(start5.iter(stop=timedelta(seconds=dir5 * step * n5), step=timedelta(seconds=dir5 * step), listeners=listeners))
        except Exception as exc:
            lib_exception(ctx, f"C10/iteration-raises-{base_prop}", env5, exc, "iteration started from an event-bearing state")
            stream5 = None
        log5 = list(st["log"])
        st["log"].clear()
        if stream5 is not None:
            ctx.count("dir:forward" if dir5 > 0 else "dir:backward")
            ctx.count("iteration:reused-listeners")
            ctx.count("iteration:starts-from-event-state")
            stale = [str(x.date) for (x, rec) in zip(stream5, [None] * len(stream5))
                     if getattr(x, "event", None) is not None and x.event is ev0.event]
            ctx.expect(not stale, "C10/samples-carry-the-event-of-the-start-state",
                       dict(env5.witness, n_stale=len(stale), first=stale[:5], n_stream=len(stream5)),
                       f"{len(stale)} of {len(stream5)} elements of a stream started from an event state carry that state's event object")
            check_stream(ctx, st, env5, stream5, log5, specs, stats)

    # ------------------------------------------------------------------ iteration 6: ephemeris, own sampling, from a later start
    # (the recorded points before the start are no samples of this iteration: nothing may be reported with respect to them)
    if prop == "Ephem" and ephem is not None:
        k6 = rng.randint(3, max(4, int(span // estep) // 2))
        off6 = rng.choice([0, 0, rng.randrange(1, estep)])
        start6 = date + timedelta(seconds=k6 * estep + off6)
        stop6 = rng.choice([None, date + timedelta(seconds=int(span) - rng.randrange(0, estep))])
        env6 = mkenv(+1, "6:ephemeris-own-sampling-from-a-later-start")
        kw6 = dict(start=start6) if stop6 is None else dict(start=start6, stop=stop6)
        env6.witness["call"] = {k_: str(v_) for k_, v_ in kw6.items()}
        env6.witness["mode"] = "native-step"
        st["log"].clear()
        st["listen_depth"] = 0
        st.pop("cur_rec", None)
        try:
            stream6 = list(ephem.iter(listeners=listeners, **kw6))
        except Exception as exc:
            lib_exception(ctx, "C10/iteration-raises-Ephem", env6, exc, "iteration of an ephemeris from a later start")
            stream6 = None
        log6 = list(st["log"])
        st["log"].clear()
        if stream6:
            ctx.count("dir:forward")
            ctx.count("iteration:reused-listeners")
            ctx.count("iteration:ephem-later-start")
            first6 = t_us(stream6[0].date, d0)
            early = [str(x.date) for x in stream6 if t_us(x.date, d0) < t_us(start6, d0)]
            ctx.expect(not early and stream6[0].event is None, "C10/event-before-the-first-sample-of-an-ephemeris-iteration",
                       dict(env6.witness, early=early[:5], first_is_event=stream6[0].event is not None, first=str(stream6[0].date)),
                       "an ephemeris iterated from a later start yields an element dated before the start, or an event before its first sample")
            check_stream(ctx, st, env6, stream6, log6, specs, stats)

    # ------------------------------------------------------------------ station.visibility stream
    stations = [s.topo for s in specs if s.topo is not None]
    if idx % 2 == 0 or not stations:
        topo = stations[0] if stations and rng.random() < 0.7 else rng.choice(st["pool"])
        visibility_case(ctx, st, rng, mkenv, topo, orb if prop != "Ephem" else ephem, prop, date, tspan, tstep, specs, listeners, stats)

    # ------------------------------------------------------------------ events_iterator / find_event
    if idx % 3 == 1 and mode != "native-step" and prop != "KeplerNum":
        filter_case(ctx, st, rng, mkenv, orb if prop != "Ephem" else ephem, date, tspan, tstep, listeners, recorded1, d0, mode)

    nontrivial = bool(stats["events"] and stats["judged_change"] and stats["judged_nochange"])
    ctx.case(descr, nontrivial=nontrivial)
    if not nontrivial:
        ctx.count("case:trivial")


def kepler_data(st, cart, t0):
    c = el.classical(cart[:3], cart[3:], st["mu"])
    return dict(t0=t0, M0=c["M"], n=c["n"], e=c["e"], argp=c["argp"], a=c["a"])


# ------------------------------------------------------------------------------------------------
def M_from_nu(e, nu):
    E = math.atan2(math.sqrt(1 - e * e) * math.sin(nu), e + math.cos(nu))
    return E - e * math.sin(E)


def closed_form_dt(kd, spec, up, te):
    """Time offset (s) of the event from the nearest closed-form crossing time, or None when the
    closed form does not apply to this listener."""
    e, n = kd["e"], kd["n"]
    k = spec.kind
    if k == "apside":
        Ms = 0.0 if up > 0 else math.pi  # radial rate - -> + in time: periapsis
    elif k == "node":
        if spec.frame not in (None, "EME2000"):
            return None
        nu = -kd["argp"] if up > 0 else math.pi - kd["argp"]  # latitude - -> + in time: ascending node
        Ms = M_from_nu(e, nu)
    elif k == "anomaly":
        if spec.frame not in (None, "EME2000"):
            return None
        if spec.anomaly == "mean":
            Ms = spec.value
        elif spec.anomaly == "eccentric":
            Ms = spec.value - e * math.sin(spec.value)
        elif spec.anomaly == "true":
            Ms = M_from_nu(e, spec.value)
        else:
            Ms = M_from_nu(e, spec.value - kd["argp"])
    else:
        return None
    Mt = kd["M0"] + n * ((te - kd["t0"]) * US)
    return el.wrap(Mt - Ms) / n


# ------------------------------------------------------------------------------------------------
def check_stream(ctx, st, env, stream, log, specs, stats, spec_of=None, skip_ids=()):
    """The offline checker of one recorded iteration."""
    d0 = env.d0
    direction = env.direction
    bsuf = "-backward" if direction < 0 else ""
    spec_by_id = {id(s.lis): s for s in specs}
    if spec_of is not None:
        spec_by_id.update(spec_of)

    if not log:
        ctx.expect(not stream, "C10/stream-without-listen", dict(env.witness, n=len(stream)), "a stream was produced but Speaker.listen was never called")
        return
    env.speaker = log[0]["speaker"]

    # ---- 0. the API stream is exactly what listen() returned, step by step, followed by the sample
    full = []
    for rec in log:
        for ev in rec["events"]:
            full.append(("event", ev, rec))
        full.append(("sample", rec["orb"], rec))
    ok = len(full) == len(stream)
    if ok:
        for (kind, obj, rec), x in zip(full, stream):
            if t_us(obj.date, d0) != t_us(x.date, d0):
                ok = False
                break
            xi = x.event.info if getattr(x, "event", None) else None
            # When the crossing lies within the last microsecond before a sample (in practice: the sample is an
            # exact zero of the watched quantity -- the don't-care situation), _bisect returns the sample object
            # itself: the sample then also carries the event.  Not judged.
            aliased = any(ev is rec["orb"] for ev in rec["events"])
            if aliased:
                ctx.count("dontcare:event-object-is-the-sample")
                continue
            oi = obj.event.info if kind == "event" and obj.event else None
            if xi != oi:
                ok = False
                break
    ctx.count("stream==listen-output")
    ctx.expect(ok, "C10/stream-differs-from-listen-output",
               dict(env.witness, n_stream=len(stream), n_listen=len(full)), "the yielded stream is not [events of the step..., sample] for every step")
    if not ok:
        return

    # ---- 1. chronological order of the whole stream (exact integer microseconds)
    ts = [t_us(x.date, d0) for x in stream]
    ctx.count("order-checked")
    def aliased_step(rec):
        return any(ev is rec["orb"] for ev in rec["events"])

    for k in range(1, len(ts)):
        if (ts[k] - ts[k - 1]) * direction < 0:
            if aliased_step(full[k][2]) or aliased_step(full[k - 1][2]):
                ctx.count("dontcare:order-in-step-with-event-object-is-the-sample")
                continue
            # which mechanism?  two events of one step in a backward iteration, or something else
            a, b = full[k - 1], full[k]
            same_step = a[2] is b[2] and a[0] == "event" and b[0] == "event"
            key = "C10/order-events-of-one-step" + bsuf if same_step else "C10/order-stream" + bsuf
            ctx.violation(key, dict(env.witness, index=k, dates=[str(stream[k - 1].date), str(stream[k].date)],
                                    infos=[stream[j].event.info if stream[j].event else "sample" for j in (k - 1, k)]),
                          f"stream not chronological in the direction of the iteration at element {k}: "
                          f"{stream[k - 1].date} then {stream[k].date}")
            break
    else:
        ctx.ok("order")

    # ---- 2. hook: prev of every listener is the previous sample (None on the first step, also for re-used objects)
    pts = {}

    def pt_of(obj):
        p = pts.get(id(obj))
        if p is None:
            p = Pt(env, obj)
            pts[id(obj)] = p
        return p

    for k, rec in enumerate(log):
        for j, (lis, prev) in enumerate(zip(rec["listeners"], rec["prevs"])):
            if k == 0:
                ctx.count("first-step-prev-checked")
                ctx.expect(prev is None, "C10/listener-state-leaks-into-next-iteration",
                           dict(env.witness, listener=type(lis).__name__, prev_date=str(getattr(prev, "date", None))),
                           "at the first step of an iteration a (re-used) listener still holds a previous sample")
            else:
                if prev is not log[k - 1]["orb"]:
                    ctx.violation("C10/listener-prev-is-not-the-previous-sample",
                                  dict(env.witness, step=k, listener=type(lis).__name__), "listener.prev is not the previous sample")
        if k == 0 and rec["events"]:
            ctx.violation("C10/event-before-first-sample", dict(env.witness, infos=[e.event.info for e in rec["events"]]),
                          "events emitted before the first sample of an iteration")

    # ---- 3. per step and listener: event <=> sign change (own definition), and per event checks
    for k in range(1, len(log)):
        rec = log[k]
        prev_obj, cur_obj = log[k - 1]["orb"], rec["orb"]
        ppt, cpt = pt_of(prev_obj), pt_of(cur_obj)
        if any(ev is cur_obj for ev in rec["events"]):
            # the sample doubles as the event object (exact-zero sample): the event -> listener mapping is
            # overwritten; the whole step is don't-care
            ctx.count("dontcare:step-with-event-object-is-the-sample")
            ctx.count("dontcare:zero-sample")
            continue
        emitted = {}
        for ev in rec["events"]:
            lid = id(ev.event.listener) if ev.event is not None else None
            if lid in emitted:
                ctx.violation("C10/two-events-of-one-listener-in-one-step", dict(env.witness, step=k, info=ev.event.info), "")
            emitted[lid] = ev
        if len(rec["events"]) >= 2:
            ctx.count("step:multi-event")
            if direction < 0:
                ctx.count("step:multi-event-backward")
        for j, lis in enumerate(rec["listeners"]):
            spec = spec_by_id.get(id(lis))
            if spec is None or id(lis) in skip_ids:
                continue
            kind = spec.kind
            (gp, sp), (gc, sc) = spec.sign(ppt), spec.sign(cpt)
            ev = emitted.get(id(lis))
            w = None

            def wit():
                return dict(env.witness, listener=spec.descr(), step_index=k, prev=str(prev_obj.date), cur=str(cur_obj.date),
                            g_own=[gp, gc], g_lib=list(rec["glib"][j]), event=str(ev.date) if ev is not None else None,
                            event_info=ev.event.info if ev is not None else None)

            # library's own evaluations (captured in Listener.check) vs the oracle's definition
            glp, glc = rec["glib"][j]
            for (gl, go, so, pt_) in ((glp, gp, sp, ppt), (glc, gc, sc, cpt)):
                if gl is None:
                    continue
                if kind in ("umbra", "penumbra"):
                    if so == 0 or sgn(gl) == so:
                        ctx.ok()
                        continue
                    if shadow_sample_dontcare(env, spec, pt_, sgn(gl)):
                        ctx.count(f"dontcare:shadow-boundary-within-tolerance:{kind}")
                        # adopt the library's classification of this sample for the <=> decision of this step
                        if pt_ is ppt:
                            sp = sgn(gl)
                        else:
                            sc = sgn(gl)
                        continue
                    # same clause of the statement as the event times: the library's cone boundary is more than the
                    # tolerance away (in time) from the independent cone.  One key per cone; the library's
                    # classification is adopted for the <=> decision of this step so that the consequence
                    # (an event "missing" / "spurious" w.r.t. the true cone) is not reported a second time.
                    ctx.violation(f"C10/shadow-time-{kind}", dict(wit(), sample=str(pt_.date), lib=gl, own=go, source="sample classification"),
                                  f"{kind}: library classifies the sample at {pt_.date} as {'lit' if gl > 0 else 'shadow'} but the independent "
                                  f"cone geometry gives g = {go!r} rad, and no cone crossing lies within {UMBRA_TOL if kind == 'umbra' else PENUMBRA_TOL} s of the sample")
                    if pt_ is ppt:
                        sp = sgn(gl)
                    else:
                        sc = sgn(gl)
                    continue
                d = abs(gl - go)
                if kind == "anomaly":
                    d = abs(el.wrap(gl - go))
                # tolerance = the don't-care floor (1e-9 of the natural scale; rounding differences probed <= 1e-14 of it x 1e5)
                ctx.resid(f"g-lib-vs-own:{kind}", d, spec.eps(pt_), key=f"C10/watched-quantity-differs-from-definition-{kind}",
                          witness=dict(wit(), sample=str(pt_.date), lib=gl, own=go),
                          msg=f"{kind}: library evaluates the watched quantity to {gl!r} at {pt_.date}, the definition gives {go!r}")
            vis = spec.visible(cpt)
            if sp == 0 or sc == 0 or vis is None:
                ctx.count("dontcare:zero-sample")
                ctx.count(f"dontcare:{kind}")
                if ev is not None:
                    ctx.count("dontcare:event-in-dontcare-step")
                continue
            changed = sp != sc
            expected = changed and vis
            if kind == "max" and expected:
                # a MAX is a maximum in physical time: elevation rate + -> -
                g_early = gp if direction > 0 else gc
                expected = g_early > 0
            ctx.count(f"judged:{kind}")
            stats["judged_change" if changed else "judged_nochange"] += 1
            if expected and ev is None:
                ctx.violation(f"C10/missed-event-{kind}{bsuf}", wit(),
                              f"{kind}: watched quantity changes sign between {prev_obj.date} and {cur_obj.date} "
                              f"({gp!r} -> {gc!r}, visibility condition holds) but no event was emitted")
                continue
            if (not expected) and ev is not None:
                why = "no sign change" if not changed else ("visibility condition false" if not vis else "not a maximum in time")
                ctx.violation(f"C10/spurious-event-{kind}{bsuf}", wit(),
                              f"{kind}: event {ev.event.info!r} at {ev.date} although {why} between {prev_obj.date} and {cur_obj.date} ({gp!r} -> {gc!r})")
                continue
            ctx.ok()
            if ev is None:
                continue
            # ------------------------------------------------------------ per-event checks
            stats["events"] += 1
            ctx.count(f"event:{kind}")
            ept = pt_of(ev)
            te = ept.t
            # between the two samples
            lo, hi = (ppt.t, cpt.t) if direction > 0 else (cpt.t, ppt.t)
            if not (lo <= te <= hi):
                ctx.violation(f"C10/event-not-between-samples-{kind}", wit(), f"event at {ev.date} outside ({prev_obj.date}, {cur_obj.date})")
                continue
            if te in (lo, hi):
                # crossing within the last microsecond before a sample (probability ~1e-7 per event): the
                # bisection returns the sample itself; not judged here, the sharpness check below still applies
                ctx.count("event-at-sample-date")
            else:
                ctx.ok()
            g_late = gc if direction > 0 else gp
            sharp = sharpness(ctx, st, env, spec, ev, ept, wit, bsuf)
            up_local = sharp  # +1: watched quantity goes - -> + in physical time at the event; None if undetermined
            up_samples = 1 if sgn(g_late) > 0 else -1
            up = up_local if up_local is not None else up_samples
            check_label(ctx, env, spec, ev, ept, up, wit, bsuf)
            if env.kepler is not None:
                dtc = closed_form_dt(env.kepler, spec, up, te)
                if dtc is not None:
                    ctx.count(f"closed-form:{kind}")
                    # the event lies within 1 us *after* (in iteration order) the crossing
                    ctx.resid(f"closed-form-time:{kind}", abs(dtc), KEPLER_TIME_TOL, key=f"C10/kepler-closed-form-time-{kind}{bsuf}",
                              witness=dict(wit(), dt=dtc, kepler=env.kepler),
                              msg=f"{kind} event {ev.event.info!r} at {ev.date} is {dtc!r} s away from the closed-form Kepler time")
            if kind in ("umbra", "penumbra"):
                shadow_time(ctx, env, spec, ev, ept, wit, bsuf)


def propagate_at(env, date, offset_us):
    from beyond.dates import timedelta

    return env.speaker.propagate(date + timedelta(microseconds=offset_us))


def sharpness(ctx, st, env, spec, ev, ept, wit, bsuf):
    """Sign change of the watched quantity within +-3 us of the event, |g(event)| bounded by the local
    variation.  Returns +1 / -1 = direction of the crossing in physical time (None if undetermined)."""
    kind = spec.kind
    try:
        p0 = Pt(env, propagate_at(env, ev.date, 0))
        pm3 = Pt(env, propagate_at(env, ev.date, -SHARP_US))
        pm1 = Pt(env, propagate_at(env, ev.date, -1))
        pp1 = Pt(env, propagate_at(env, ev.date, +1))
        pp3 = Pt(env, propagate_at(env, ev.date, +SHARP_US))
    except ValueError:
        ctx.count("sharp:skipped-out-of-ephemeris-range")  # event within 3 us of the end of an ephemeris
        return None
    except Exception as exc:
        ctx.violation("C10/propagate-around-event-raises", dict(wit(), exc=repr(exc)), f"speaker.propagate a few us around an event raised {exc!r}")
        return None
    # the emitted state is the trajectory at the emitted date: same function, same date => identical numbers
    # (probed: exactly 0).  Points that station.visibility() converted in place to the station frame are
    # skipped (their way back costs up to 3e-6 m, which would blur a 1 us = 1.5e-3 m inconsistency check).
    if ev.frame.name == env.native and ev.form.name == "cartesian":
        dpos = float(np.linalg.norm(p0.cart()[:3] - ept.cart()[:3]))
        ctx.resid("event-state-vs-trajectory", dpos, 1e-9, key="C10/event-state-is-not-the-trajectory-at-its-date",
                  witness=dict(wit(), dpos=dpos), msg=f"{kind}: the event state at {ev.date} is {dpos!r} m away from speaker.propagate(event date)")
    if kind in ("umbra", "penumbra"):
        # the library's watched quantity is the discrete illumination state (+-1); the oracle's smooth
        # function is compared in time (shadow_time), not at the microsecond level
        lis = spec.lis
        vals = [float(lis(p.obj)) for p in (pm3, pm1, ept, pp1, pp3)]
        eps = 0.0
    else:
        vals = [spec.g(p) for p in (pm3, pm1, ept, pp1, pp3)]
        eps = spec.eps(ept)
    signs = [sgn(v, 0.0) for v in vals]
    ctx.count(f"sharp:{kind}")
    has_change = any(a != b for a, b in zip(signs, signs[1:])) or any(abs(v) <= eps for v in vals)
    ctx.expect(has_change, f"C10/event-not-at-sign-change-{kind}{bsuf}", dict(wit(), g_around=vals, offsets_us=[-3, -1, 0, 1, 3]),
               f"{kind}: watched quantity does not change sign within +-{SHARP_US} us of the event at {ev.date}: {vals}")
    if not has_change:
        return None
    s_first, s_last = signs[0], signs[-1]
    if s_first == s_last or 0 in (s_first, s_last):
        return None
    return 1 if s_last > 0 else -1


def check_label(ctx, env, spec, ev, ept, up, wit, bsuf):
    kind = spec.kind
    if kind in ("node", "signal", "terminator", "anomaly", "radial"):
        bsuf = ""  # these labels come from a physical derivative / a constant: one mechanism whatever the direction
    info = ev.event.info
    ctx.count(f"label:{kind}")
    exp = None
    if kind == "node":
        exp = "Asc Node" if up > 0 else "Desc Node"
    elif kind == "apside":
        exp = "Periapsis" if up > 0 else "Apoapsis"
    elif kind in ("signal", "mask"):
        exp = "AOS" if up > 0 else "LOS"
    elif kind == "umbra":
        exp = "Umbra exit" if up > 0 else "Umbra entry"
    elif kind == "penumbra":
        exp = "Penumbra exit" if up > 0 else "Penumbra entry"
    elif kind == "terminator":
        exp = "Day Terminator" if up > 0 else "Night Terminator"
    elif kind == "max":
        if info != "MAX":
            ctx.violation("C10/label-max", wit(), f"MAX event labelled {info!r}")
        else:
            ctx.expect(up < 0, "C10/label-max-at-elevation-minimum" + bsuf, wit(), f"event 'MAX' at {ev.date} where the elevation rate goes - -> + (a minimum)")
        return
    elif kind == "radial":
        ctx.expect(info == "Radial Velocity", "C10/label-radial", wit(), f"radial velocity event labelled {info!r}")
        return
    elif kind == "anomaly":
        txt = "Argument of Latitude" if spec.anomaly == "aol" else f"{spec.anomaly.title()} Anomaly"
        if abs(spec.g(ept)) > 1.0:
            # The sign change that was located is the +-pi wrap-around of the wrapped difference, not a zero:
            # the trajectory between the two samples passed the antipode of the watched value although the
            # samples bracket the value itself.  Seen only with Ephem(method='linear') on near-circular orbits,
            # where the osculating anomaly of the chord between two nodes swings through all values.  Every
            # clause of the statement (sign change between the samples, event between them, sign change within
            # microseconds of it) holds literally, so this is recorded, not judged.
            ctx.count("observed:anomaly-event-at-wrap-around-discontinuity")
            if "anomaly-event-at-wrap-around" not in ctx.notes:
                ctx.note("anomaly-event-at-wrap-around", dict(wit(), g_own_at_event=spec.g(ept)))
            return
        good = False
        if info.startswith(txt + " = "):
            try:
                val = float(info[len(txt) + 3:])
                d = (val - math.degrees(spec.value) + 180.0) % 360.0 - 180.0
                good = abs(d) <= 0.006 + 1e-6  # two decimals printed
            except ValueError:
                good = False
        ctx.expect(good, "C10/label-anomaly" + bsuf, wit(), f"anomaly event labelled {info!r} for {spec.anomaly} = {math.degrees(spec.value)!r} deg")
        return
    ctx.expect(info == exp, f"C10/label-{kind}{bsuf}", dict(wit(), expected=exp),
               f"{kind}: event at {ev.date} labelled {info!r} but the watched quantity goes {'- -> +' if up > 0 else '+ -> -'} in time ({exp!r})")


# ------------------------------------------------------------------------------------------------
def own_shadow_g(env, spec, date, offset_s):
    from beyond.dates import timedelta

    us = int(round(offset_s * 1e6))
    p = Pt(env, env.speaker.propagate(date + timedelta(microseconds=us)))
    return spec.g(p)


def shadow_sample_dontcare(env, spec, pt, lib_sign):
    """True when the oracle's own shadow boundary is crossed within the statement's tolerance of the
    sample (then the two classifications of the sample may legitimately differ)."""
    tol = UMBRA_TOL if spec.kind == "umbra" else PENUMBRA_TOL
    try:
        a = own_shadow_g(env, spec, pt.date, -tol)
        b = own_shadow_g(env, spec, pt.date, +tol)
    except ValueError:
        # an ephemeris cannot be evaluated outside its range (first / last sample): not judged
        return True
    return sgn(a) == lib_sign or sgn(b) == lib_sign


def shadow_time(ctx, env, spec, ev, ept, wit, bsuf):
    """Time of the oracle's own cone crossing next to a reported umbra / penumbra event."""
    kind = spec.kind
    tol = UMBRA_TOL if kind == "umbra" else PENUMBRA_TOL
    try:
        g0 = spec.g(ept)
        # bracket
        B = 4 * tol
        lo = hi = None
        while B <= SHADOW_SEARCH:
            ga, gb = own_shadow_g(env, spec, ev.date, -B), own_shadow_g(env, spec, ev.date, +B)
            if sgn(ga) != sgn(gb):
                lo, hi, glo, ghi = -B, B, ga, gb
                break
            B *= 4
        if lo is None:
            ctx.violation(f"C10/shadow-no-cone-crossing-near-event-{kind}", dict(wit(), g_own_at_event=g0, searched_s=SHADOW_SEARCH),
                          f"{kind}: no crossing of the {kind} cone within {SHADOW_SEARCH} s of the reported {ev.event.info!r} at {ev.date}")
            return
        # Illinois regula falsi on the smooth function
        side = 0
        x = 0.0
        for _ in range(40):
            x = (lo * ghi - hi * glo) / (ghi - glo)
            gx = own_shadow_g(env, spec, ev.date, x)
            if abs(hi - lo) < 2e-5:
                break
            if sgn(gx) == sgn(glo):
                lo, glo = x, gx
                if side == -1:
                    ghi /= 2
                side = -1
            else:
                hi, ghi = x, gx
                if side == 1:
                    glo /= 2
                side = 1
            if gx == 0:
                break
    except ValueError as exc:
        # documented refusal: an ephemeris (Ephem, KeplerNum's internal one) cannot be evaluated outside its range;
        # happens when the event is closer to the first / last node than the search window
        ctx.count("shadow-time:skipped-out-of-ephemeris-range")
        return
    except Exception as exc:
        ctx.violation("C10/propagate-around-event-raises", dict(wit(), exc=repr(exc)), f"propagation around a light event raised {exc!r}")
        return
    ctx.count(f"shadow-time:{kind}")
    rn = float(np.linalg.norm(ept.cart()[:3]))
    cls = "high" if rn > 2.0e7 else "low"
    ctx.count(f"shadow-time:{kind}:{cls}-altitude")
    key = f"C10/shadow-time-{kind}"
    if kind == "penumbra" and abs(x) > tol:
        # known finding C10/shadow-time-penumbra only if the event sits on the penumbra cone drawn with the UMBRA half-angle
        # asin((Rs - Rb)/d) -- the recorded defect -- to 0.05 s; any other penumbra timing error is something new
        def g_defect(offset_s):
            from beyond.dates import timedelta as _td

            pt = Pt(env, env.speaker.propagate(ev.date + _td(microseconds=int(round(offset_s * 1e6)))))
            r_, s_ = np.asarray(pt.cart()[:3], float), np.asarray(pt.sun(), float)
            ns, nr = float(np.linalg.norm(s_)), float(np.linalg.norm(r_))
            alpha = math.asin((env.rs - env.re) / ns)
            zeta = math.acos(max(-1.0, min(1.0, float(-(s_ @ r_)) / (ns * nr))))
            return nr * math.sin(zeta) - math.tan(alpha) * (env.re / math.sin(alpha) + nr * math.cos(zeta))

        try:
            a_, b_ = -0.05, 0.05
            explained = sgn(g_defect(a_)) != sgn(g_defect(b_)) or abs(g_defect(0.0)) < 1e-3
        except Exception:
            explained = False
        if not explained:
            key = "C10/shadow-time-penumbra-not-explained-by-known-mechanism"
    ctx.resid(f"shadow-time:{kind}", abs(x), tol, key=key, witness=dict(wit(), dt=x, r_norm=rn, g_own_at_event=g0),
              msg=f"{kind}: reported {ev.event.info!r} at {ev.date} (|r| = {rn / 1e3:.0f} km) is {x:+.4f} s away from the crossing of the "
                  f"{kind} cone of the independent conical-shadow computation (tolerance {tol} s)")
    # direction of the oracle's crossing vs the label
    up = 1 if sgn(ghi) > 0 else -1
    exp = f"{kind.title()} exit" if up > 0 else f"{kind.title()} entry"
    ctx.expect(ev.event.info == exp, f"C10/label-{kind}{bsuf}", dict(wit(), expected=exp, source="cone crossing"),
               f"{kind}: event labelled {ev.event.info!r}, the cone crossing next to it is an {exp!r}")


# ------------------------------------------------------------------------------------------------
def visibility_case(ctx, st, rng, mkenv, topo, target, prop, date, tspan, tstep, specs, listeners, stats):
    """station.visibility(orb, events=True [, extra listeners]): the stream must be exactly the
    above-horizon sample points plus the AOS/LOS/MAX(/mask) events of the station."""
    from beyond.propagators import listeners as L

    env = mkenv(+1, "5:station.visibility")
    env.witness["station"] = topo.descr()
    variant = rng.choice(["events=True", "events=True", "events=listener", "events=list+listeners-kw"])
    extra = []
    kw = dict(start=date, stop=tspan, step=tstep)
    if prop == "Ephem":
        kw = dict(start=date, stop=date + tspan, step=tstep)
    if variant == "events=True":
        kw["events"] = True
    elif variant == "events=listener":
        extra = [L.NodeListener()]
        kw["events"] = extra[0]
    else:
        extra = [L.ApsideListener(), L.NodeListener()]
        kw["events"] = [extra[0]]
        kw["listeners"] = [extra[1]]
    env.witness["variant"] = variant
    st["log"].clear()
    try:
        vis = list(topo.frame.visibility(target, **kw))
    except Exception as exc:
        lib_exception(ctx, "C10/visibility-raises", env, exc, "station.visibility(events=...)")
        st["log"].clear()
        return
    log = list(st["log"])
    st["log"].clear()
    ctx.count("visibility:streams")
    ctx.count(f"visibility:{variant}")
    if not log:
        ctx.violation("C10/visibility-without-listen", env.witness, "visibility(events=True) never called Speaker.listen")
        return
    # the listener objects visibility() created
    lst = log[0]["listeners"]
    vspecs = [Spec(st, l) for l in lst]
    spec_of = {id(s.lis): s for s in vspecs}
    station_lis = [s for s in vspecs if s.topo is topo and s.kind in ("signal", "max", "mask")]
    kinds = sorted(s.kind for s in station_lis)
    want = ["max", "signal"] + (["mask"] if topo.mask is not None else [])
    ctx.expect(kinds == sorted(want), "C10/visibility-station-listeners", dict(env.witness, kinds=kinds), f"visibility attached station listeners {kinds}, expected {sorted(want)}")
    # full underlying stream reconstructed from the listen log (same objects: visibility converts them in place)
    full = []
    for rec in log:
        for ev in rec["events"]:
            full.append(("event", ev))
        full.append(("sample", rec["orb"]))
    env.speaker = log[0]["speaker"]
    if any(ev is rec["orb"] for rec in log for ev in rec["events"]):
        # a sample that is an exact zero of a watched quantity doubles as its own event object (don't care)
        ctx.count("dontcare:visibility-stream-with-event-object-is-the-sample")
        return
    station_ids = {id(s.lis) for s in station_lis}
    expected = []
    dontcare = 0
    for kind, obj in full:
        if kind == "event" and id(obj.event.listener) in station_ids:
            expected.append((obj, True))
            ctx.count("visibility:station-events")
            continue
        p = Pt(env, obj)
        elev = p.look(topo)["el"]
        if abs(elev) < EPS_ANGLE:
            expected.append((obj, None))
            dontcare += 1
        elif elev > 0:
            expected.append((obj, True))
    # compare as sequences of (exact date, event label) (None = may or may not be present); KeplerNum re-wraps
    # the objects (as_orbit), so identity cannot be used there
    def ident(o):
        return (t_us(o.date, env.d0), o.event.info if getattr(o, "event", None) else None)

    vi = 0
    okseq = True
    why = ""
    for obj, must in expected:
        if vi < len(vis) and (vis[vi] is obj or ident(vis[vi]) == ident(obj)):
            vi += 1
        elif must is None:
            continue
        else:
            okseq = False
            why = f"element at {obj.date} ({'event ' + obj.event.info if obj.event else 'sample'}, own elevation " \
                  f"{Pt(env, obj).look(topo)['el']!r}) missing or out of place in the visibility stream"
            break
    if okseq and vi != len(vis):
        okseq = False
        x = vis[vi]
        why = f"visibility stream has an extra element at {x.date} ({'event ' + x.event.info if x.event else 'sample'}, own elevation {Pt(env, x).look(topo)['el']!r})"
    ctx.count("visibility:elements", len(vis))
    ctx.expect(okseq, "C10/visibility-stream-is-not-above-horizon-samples-plus-station-events",
               dict(env.witness, n_visibility=len(vis), n_expected=len([e for e in expected if e[1]]), why=why), why)
    # yielded points are in the station frame, spherical, and phi is the own elevation
    for x in vis[:: max(1, len(vis) // 25)]:
        good = x.frame.name == topo.name and x.form.name == "spherical"
        ctx.expect(good, "C10/visibility-point-not-in-station-frame", dict(env.witness, frame=x.frame.name, form=x.form.name), "visibility point not in station frame / spherical")
        if good:
            own = Pt(env, x).look(topo)["el"]
            ctx.resid("visibility:phi-vs-own-elevation", abs(float(x.phi) - own), 1e-9, key="C10/visibility-elevation-differs", witness=dict(env.witness, date=str(x.date), phi=float(x.phi), own=own),
                      msg="phi of a visibility point differs from the independent elevation")
    # history: the same call again with the same `listeners=` list object must give the same stream
    if "listeners" in kw:
        n_before = len(kw["listeners"])
        st["log"].clear()
        try:
            vis2 = list(topo.frame.visibility(target, **kw))
        except Exception as exc:
            lib_exception(ctx, "C10/visibility-raises", env, exc, "second station.visibility() call with the same listeners list")
            vis2 = None
        st["log"].clear()
        if vis2 is not None:
            ctx.count("visibility:repeat-with-same-listeners-list")
            a = [(t_us(x.date, env.d0), x.event.info if x.event else None) for x in vis]
            b = [(t_us(x.date, env.d0), x.event.info if x.event else None) for x in vis2]
            ctx.expect(a == b, "C10/visibility-extends-callers-listeners-list-so-a-repeat-duplicates-events",
                       dict(env.witness, n_first=len(a), n_second=len(b), len_listeners_before_second_call=n_before,
                            len_listeners_after=len(kw["listeners"]),
                            events_first=[e for e in a if e[1]][:12], events_second=[e for e in b if e[1]][:12]),
                       f"station.visibility(orb, listeners=L, events=[..]) called twice with the same list L: first stream {len(a)} elements, "
                       f"second {len(b)} (L grew to {len(kw['listeners'])} listeners: the station listeners are appended to the caller's list at every call)")
    # visibility() converts every yielded point *in place* to the station frame; the same objects are the
    # `prev` of the listeners at the next step.  Listeners that evaluate g in "the frame of the orbit"
    # (frame=None) then see prev in the station frame.  One precise key for this mechanism; the listeners
    # affected are excluded from the generic check (their events are explained by it).
    corrupted = {}
    for k in range(1, len(log)):
        rec = log[k]
        ppt = Pt(env, log[k - 1]["orb"])
        for j, lis in enumerate(rec["listeners"]):
            spec = spec_of.get(id(lis))
            if spec is None or spec in station_lis or id(lis) in corrupted or spec.kind in ("umbra", "penumbra"):
                continue
            glp = rec["glib"][j][0]
            if glp is None:
                continue
            go = spec.g(ppt)
            d = abs(el.wrap(glp - go)) if spec.kind == "anomaly" else abs(glp - go)
            if d > 1e3 * spec.eps(ppt):
                corrupted[id(lis)] = dict(listener=spec.descr(), prev=str(ppt.date), g_prev_lib=glp, g_prev_own=go,
                                          prev_frame_now=log[k - 1]["orb"].frame.name, prev_form_now=log[k - 1]["orb"].form.name)
    for lid, wv in corrupted.items():
        n_ev = sum(1 for kind, o in full if kind == "event" and id(o.event.listener) == lid)
        ctx.violation("C10/visibility-converts-samples-in-place-so-listener-prev-is-in-station-frame",
                      dict(env.witness, n_events_of_this_listener=n_ev, n_samples=len(log), **wv),
                      f"station.visibility({variant}): listener {wv['listener']['type']} evaluated its previous sample in frame "
                      f"{wv['prev_frame_now']} ({wv['g_prev_lib']!r} instead of {wv['g_prev_own']!r}); {n_ev} events emitted over {len(log)} samples")
    if extra and not corrupted:
        ctx.count("visibility:extra-listeners-consistent")
    # and the underlying stream obeys the general specification (AOS/LOS at zero elevation, MAX at zero rate ...)
    check_stream(ctx, st, env, [o for _, o in full], log, vspecs, stats, spec_of=spec_of, skip_ids=set(corrupted))


def filter_case(ctx, st, rng, mkenv, target, date, tspan, tstep, listeners, recorded1, d0, mode):
    """events_iterator / find_event over an identical iteration == filter of the recorded stream."""
    from beyond.dates import Date
    from beyond.propagators import listeners as L

    env = mkenv(+1, "6:events_iterator/find_event")

    def it():
        if mode == "range":
            return target.iter(start=date, stop=date + tspan, step=tstep, listeners=listeners)
        return target.iter(dates=list(Date.range(date, date + tspan, tstep)), listeners=listeners)

    # recorded1 may include the stop sample (range mode with timedelta stop is the same span) -- events only matter here
    ev_ref = [r for r in recorded1 if r[1] is not None]
    tmax = max(r[0] for r in recorded1)
    names = sorted({r[1] for r in ev_ref})
    try:
        got_all = [(t_us(x.date, d0), x.event.info) for x in L.events_iterator(it())]
        ctx.count("events_iterator:streams")
        got_all = [g for g in got_all if g[0] <= tmax]
        ctx.expect(got_all == ev_ref, "C10/events_iterator-differs-from-stream", dict(env.witness, got=got_all[:30], ref=ev_ref[:30]),
                   "events_iterator(iterator) is not the sub-sequence of events of the recorded stream")
        if names:
            pick = rng.sample(names, k=min(len(names), rng.randint(1, 2)))
            got = [(t_us(x.date, d0), x.event.info) for x in L.events_iterator(it(), *pick)]
            got = [g for g in got if g[0] <= tmax]
            ref = [r for r in ev_ref if r[1] in pick]
            ctx.count("events_iterator:streams")
            ctx.expect(got == ref, "C10/events_iterator-filter-differs", dict(env.witness, names=pick, got=got[:30], ref=ref[:30]),
                       f"events_iterator(iterator, {pick}) is not the recorded stream filtered by these labels")
            name = rng.choice(names)
            ref = [r for r in ev_ref if r[1] == name]
            off = rng.randrange(len(ref))
            ctx.count("find_event:calls")
            try:
                x = L.find_event(it(), name, offset=off)
            except RuntimeError as exc:
                ctx.violation("C10/find_event-refuses-an-existing-event", dict(env.witness, name=name, offset=off, n=len(ref), exc=repr(exc)),
                              f"find_event(.., {name!r}, offset={off}) raised although the stream has {len(ref)} such events")
                x = None
            if x is not None:
                ctx.expect((t_us(x.date, d0), x.event.info) == ref[off], "C10/find_event-wrong-event",
                           dict(env.witness, name=name, offset=off, got=[str(x.date), x.event.info], ref=ref[off]),
                           f"find_event(.., {name!r}, offset={off}) returned another event than the {off}-th one of the stream")
            try:
                y = L.find_event(it(), name, offset=len(ref) + 3)
                # the identical iteration has only len(ref) such events (the range-mode stop sample cannot add 3)
                ctx.violation("C10/find_event-beyond-last", dict(env.witness, name=name, n=len(ref), got=str(y.date)), "find_event returned an event beyond the last one")
            except RuntimeError:
                ctx.ok("find_event-refusal")
        try:
            L.find_event(it(), "No Such Event")
            ctx.violation("C10/find_event-unknown-label", env.witness, "find_event returned something for an unknown label")
        except RuntimeError:
            ctx.ok("find_event-refusal")
    except Exception as exc:
        lib_exception(ctx, "C10/events_iterator-raises", env, exc, "events_iterator / find_event")
    st["log"].clear()
