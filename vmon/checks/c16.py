"""C16 -- Clohessy-Wiltshire propagation solves Hill's equations.

Monitors (all against vmon.oracles.hill, which is written from the vector form of Hill's ODE and
never uses the closed-form CW matrices):

  * reference model: every propagated relative state (free flight, inside a constant-thrust burn,
    after any chronologically ordered list of impulses/burns) vs the matrix-exponential solution of
    the initial value problem;
  * ODE residuals: Richardson-extrapolated 5-point finite differences in time of the *library's*
    propagated positions/velocities:  d/dt rho - rho' = 0,  d/dt rho' - f(rho, rho', a) = 0;
  * group law: t1 then t2 == t1+t2, backwards == inverse (also through maneuver lists);
  * jump conditions across an impulse date (state at t_m -/+ 1 us), position continuous;
  * TNW results == fixed axis permutation of the QSW results (initial state and maneuver vectors
    permuted by the oracle's own permutation);
  * non-linear truth: difference of two universal-variable Kepler orbits in the target's rotating QSW
    frame; |CW - truth| / (S^2/a) bounded for separations from 10 m to 5 km;
  * CWHelper maneuvers run under the propagator produce the announced radial / along-track
    displacement and final rest.
"""

import math

import numpy as np

from .. import probe
from ..oracles import hill

RULE = (
    "case = one generated scenario (target sma log-uniform 6600..42164 km, relative state 10 m..5 km / <= 5 m/s "
    "with random or axis-aligned direction, 0..4 chronologically ordered impulsive/continuous maneuvers after the "
    "epoch, query dates within +-2 periods placed before/inside/after each maneuver and at t_m -/+ 1 us), run in both "
    "orientations; distinct = digest of the generated numbers; non-trivial = at least one query with dt != 0"
)
ASSUMPTIONS = [
    "Hill's equations in vector form (vmon/oracles/hill.py) are the truth; their IVP is solved by an own "
    "scaling-and-squaring matrix exponential (self-checked against the ODE by finite differences in finish())",
    "Earth.mu of beyond.constants is data; the mean motion is n = sqrt(mu / sma^3)",
    "maneuvers are given in the axes of the Hill frame (frame=None), as CWHelper does; all dates lie on the "
    "microsecond grid so that the library's (date - epoch).total_seconds() is exact",
    "non-linear truth: vmon/oracles/kepler_uv.py (universal variables); rectilinear rotating QSW frame of the target",
    "the helper's announcements are read from its public API: hohmann_distance(), the `radial`/`tangential` "
    "arguments documented as 'distance to cover', period",
]

T0_MJD_RANGE = (51544, 62502)  # 2000 .. 2030

# ---------------------------------------------------------------------------------------------
# Tolerances (documented; noise floors measured on the unchanged tree with 4000..20000 cases)
#
# scale = (|rho0| + |v0|/n + sum|dv_i|/n + sum|a_j|/n^2) * (1 + |n t|)^2 bounds every term of the solution
# (secular terms grow like n t for the free motion and (n t)^2 under thrust).
# IVP: measured noise 6e-13*scale (free) / 2e-13*scale (thrust) for positions, 3e-13*n*scale for velocities
#      (double rounding of the closed form + 7 squarings of the oracle's exponential)  ->  tol 1e-10 (> 150x);
#      any wrong matrix entry changes the result by O(1e-3..1)*scale.
REL_IVP = 1e-10
# group law: same noise, amplified once more by the second leg (scale of both legs multiplied) -> 1e-10 of that
REL_GROUP = 1e-10
# TNW vs QSW: identical arithmetic up to the 6x6 similarity products (measured 4e-16*scale) -> 1e-12
REL_PERM = 1e-12
# non-linear truth: sup of |CW - truth| / (S^2/a), S = (|rho0| + |v0|/n)(1 + |n t|), measured 16.6 (position)
# and 10.3 (velocity, in units of n S^2/a) independent of the separation decade (2 x 20000 cases);
# a first-order error eps in a matrix entry gives a ratio ~ eps*a/rho = 1e3..1e6*eps at the small-rho end.
NONLIN_RATIO = 50.0


def jobs(tier):
    q = tier == "quick"
    return [
        {"name": "free", "n": 2400 if q else 48000, "eop": "zero"},
        {"name": "mans", "n": 1600 if q else 32000, "eop": "zero"},
        {"name": "nonlinear", "n": 4000 if q else 80000, "eop": "zero"},
        {"name": "helper", "n": 1600 if q else 32000, "eop": "zero"},
        {"name": "overlap", "n": 160 if q else 1600, "eop": "zero"},
        # real IERS tables: free motion and one impulse over spans that contain a leap second, epoch labelled UTC / TAI
        {"name": "leap-second", "n": 60 if q else 1200, "eop": "real", "shards": 2 if q else 8},
    ]


def requirements(tier):
    k = 1 if tier == "quick" else 10
    req = {
        "leap:judged": 80 * k, "leap:label:UTC": 20 * k, "ivp:free": 2000 * k, "history:propagated-before-maneuvers-attached": 100 * k, "history:maneuvers-attached-in-place-with-a-bystander": 100 * k, "request-label:TT": 100 * k, "request-label:GPS": 100 * k,
        "propagator:from_orbit:QSW": 20, "propagator:from_orbit:TNW": 20,
        "stream:evaluated": 2000 * k,
        "stream:maneuver-at-epoch": 100 * k,
        "ivp:inside-burn": 300 * k,
        "ivp:after-maneuver": 1000 * k,
        "ode:free": 1000 * k,
        "ode:thrust": 150 * k,
        "compose:free": 1000 * k,
        "inverse:free": 1000 * k,
        "compose:before-maneuvers": 100 * k,
        "jump:evaluated": 300 * k,
        "perm:evaluated": 3000 * k,
        "nonlinear:evaluated": 3000 * k,
        "orientation:QSW": 1000 * k,
        "orientation:TNW": 1000 * k,
        "dt:negative": 500 * k,
        "dt:zero": 50 * k,
        "man:imp": 300 * k,
        "man:burn": 300 * k,
        "route:iter": 100 * k,
    }
    for d in (1, 2, 3):
        req[f"nonlinear:rho-decade-{d}"] = 500 * k
    for name in ("coelliptic", "hohmann", "eccentric_boost", "tangential_boost", "vbar_linear"):
        req[f"helper:{name}"] = 80 * k
    for name in ("hohmann", "eccentric_boost"):
        req[f"helper:{name}:continuous"] = 30 * k
    return req


# ---------------------------------------------------------------------------------------------
def setup(ctx, job):
    from beyond.constants import Earth
    from beyond.frames.frames import HillFrame

    st = {"mu": float(Earth.mu), "ctx": ctx}
    # one frame object per orientation (HillFrame() re-registers the global name 'Hill' each time)
    st["frames"] = {"QSW": HillFrame(orientation="QSW"), "TNW": HillFrame(orientation="TNW")}
    return st


def finish(ctx, job, st):
    # self-check of the oracle: the exponential solution satisfies the vector ODE (finite differences)
    for ori in ("QSW", "TNW"):
        n = 1.1e-3
        x0 = np.array([120.0, -340.0, 55.0, 0.3, -0.2, 0.1])
        acc = np.array([1e-4, -2e-4, 5e-5])
        g = 2.0
        for t in (-3000.0, 1500.0, 9000.0):
            s = [hill.solve(x0, n, t + k * g, acc, ori) for k in range(-4, 5)]
            d = hill.d1_richardson(s, g)
            r = d - hill.rhs(s[4], n, acc, ori)
            scale = (np.linalg.norm(x0[:3]) + np.linalg.norm(x0[3:]) / n + np.linalg.norm(acc) / n ** 2) * (1 + abs(n * t)) ** 2
            if not (np.linalg.norm(r[:3]) <= 1e-9 * n * scale and np.linalg.norm(r[3:]) <= 1e-9 * n * n * scale):
                ctx.inconclusive_if(True, f"oracle self-check failed: hill.solve does not satisfy hill.rhs ({ori}, t={t})")
    ctx.count("oracle-selfcheck")


# ---------------------------------------------------------------------------------------------
# generators


def gen_epoch(rng):
    from beyond.dates import Date, timedelta

    mjd = rng.randint(*T0_MJD_RANGE)
    sec = rng.randint(0, 86399)
    us = rng.choice([0, rng.randint(0, 999999)])
    return Date(mjd, 0.0) + timedelta(seconds=sec, microseconds=us), (mjd, sec, us)


def gen_sma(rng):
    return math.exp(rng.uniform(math.log(6.6e6), math.log(4.2164e7)))


def rand_dir(rng):
    while True:
        v = np.array([rng.gauss(0, 1) for _ in range(3)])
        nv = np.linalg.norm(v)
        if nv > 1e-3:
            return v / nv


def gen_rel_state(rng, n):
    """(rho, rho') as (radial, along, cross) components, |rho| in 10 m..5 km, |rho'| <= 5 m/s."""
    rho = math.exp(rng.uniform(math.log(10.0), math.log(5000.0)))
    if rng.random() < 0.2:
        x = np.eye(3)[rng.randrange(3)] * rng.choice([-1, 1]) * rho
    else:
        x = rand_dir(rng) * rho
    kind = rng.choice(["zero", "natural", "log", "coelliptic", "axis"])
    if kind == "zero":
        v = np.zeros(3)
    elif kind == "natural":
        v = rand_dir(rng) * min(5.0, rng.uniform(0, 3) * n * rho)
    elif kind == "log":
        v = rand_dir(rng) * 10 ** rng.uniform(-3, math.log10(5.0))
    elif kind == "coelliptic":
        v = np.array([0.0, -1.5 * n * x[0], 0.0])
        if np.linalg.norm(v) > 5.0:
            v *= 5.0 / np.linalg.norm(v)
    else:
        v = np.eye(3)[rng.randrange(3)] * rng.choice([-1, 1]) * min(5.0, rng.uniform(0, 2) * n * rho + 1e-3)
    return np.concatenate([x, v]), kind


def to_axes(state_rac, ori):
    """6-state given as (radial, along, cross) components -> coordinates in `ori` axes."""
    return np.concatenate([hill.compose(*state_rac[:3], ori), hill.compose(*state_rac[3:], ori)])


def vec_to_axes(v_rac, ori):
    return hill.compose(*v_rac, ori)


def make_orbit(st, sma, ori, state, epoch):
    from beyond.orbits import Orbit
    from beyond.propagators.cw import ClohessyWiltshire

    st["n_make"] = st.get("n_make", 0) + 1
    if st["n_make"] % 7 == 0 and st.get("ctx") is not None and st.get("n_from_orbit", 0) < 120:
        # the other documented way to a propagator: from the target's orbit, with the orientation asked for
        ctx = st["ctx"]
        st["n_from_orbit"] = st.get("n_from_orbit", 0) + 1
        v = math.sqrt(st["mu"] / sma)
        target = Orbit([sma, 0.0, 0.0, 0.0, v, 0.0], epoch, "cartesian", "EME2000", "Kepler")
        try:
            prop = ClohessyWiltshire.from_orbit(target, orientation=ori, name=f"VmonC16T{ctx.shard}x{st['n_from_orbit']}")
        except Exception as exc:
            ctx.violation("C16/from-orbit-raises", {"sma": sma, "orientation": ori, "exc": repr(exc)}, f"ClohessyWiltshire.from_orbit raised {exc!r}")
            prop = ClohessyWiltshire(sma, frame=st["frames"][ori])
        else:
            ctx.count("propagator:from_orbit:" + ori)
            got_ori = getattr(prop.frame, "orientation", None)
            ctx.expect(got_ori == ori and abs(prop.sma - sma) <= 1e-6 * sma, "C16/from-orbit-ignores-the-orientation-asked-for",
                       {"sma": sma, "asked": ori, "propagator_frame_orientation": str(got_ori), "propagator_sma": float(prop.sma),
                        "how": "ClohessyWiltshire.from_orbit(circular target, orientation=asked)"},
                       f"from_orbit(orientation={ori!r}) returned a propagator working in {got_ori!r} axes")
        return Orbit(np.array(state, float), epoch, "cartesian", st["frames"][ori], prop), prop
    prop = ClohessyWiltshire(sma, frame=st["frames"][ori])
    return Orbit(np.array(state, float), epoch, "cartesian", st["frames"][ori], prop), prop


def date_at(epoch, us):
    from beyond.dates import timedelta

    return epoch + timedelta(microseconds=int(us))


def lib_state(ctx, orb, date, key_ctx, witness):
    """Propagate with the library; exceptions and non-finite output are observations."""
    try:
        res = orb.propagate(date)
    except Exception as exc:  # the property promises a state
        ctx.violation(f"C16/propagate-raises-{key_ctx}", dict(witness, exc=repr(exc)), f"propagate raised {exc!r}")
        return None
    out = probe.arr(res)
    if not np.all(np.isfinite(out)):
        ctx.violation(f"C16/nonfinite-{key_ctx}", dict(witness, got=out), "non-finite propagated state")
        return None
    return out


def scale_of(state0, n, t, dv_sum=0.0, acc_sum=0.0):
    s = np.linalg.norm(state0[:3]) + np.linalg.norm(state0[3:]) / n + dv_sum / n + acc_sum / (n * n)
    return s * (1.0 + abs(n * t)) ** 2


def cmp_state(ctx, name, got, ref, n, scale, rel, key, witness, msg):
    dp = float(np.linalg.norm(got[:3] - ref[:3]))
    dv = float(np.linalg.norm(got[3:] - ref[3:]))
    a = ctx.resid(f"{name}:pos", dp, rel * scale, key=key, witness=dict(witness, got=got, expected=ref),
                  msg=f"{msg}: |d pos| = {dp:.3e} m (scale {scale:.3e})")
    b = ctx.resid(f"{name}:vel", dv, rel * n * scale, key=key, witness=dict(witness, got=got, expected=ref),
                  msg=f"{msg}: |d vel| = {dv:.3e} m/s (scale {n * scale:.3e})")
    return a and b


# ---------------------------------------------------------------------------------------------
# ODE residual by finite differences of the library's own output


def ode_residual(ctx, orb, epoch, us, half_width_us, n, ori, accel, scale, tag, witness):
    """Richardson/5-point finite differences of the propagated state around epoch+us.

    half_width_us: the largest |offset| allowed (the stencil must stay inside a smooth segment).
    g = spacing (us, integer): n*g ~ 0.01 when room allows.  Truncation (n g)^6 ~ 1e-12 relative;
    rounding 1e-16*scale/g.  Tolerance = 1e-9 + 100 x rounding estimate, in units of n*scale (velocity
    equation) and n^2*scale (acceleration equation); a wrong entry of the matrices gives O(1e-3..1).
    """
    g_us = int(min(0.01 / n * 1e6, half_width_us / 4.0))
    if g_us < 1000 or g_us * n * 1e-6 < 2e-5:  # < 1 ms or n g < 2e-5: rounding would dominate
        ctx.count("ode:skipped-no-room")
        return
    g = g_us * 1e-6
    samples = []
    for k in range(-4, 5):
        s = lib_state(ctx, orb, date_at(epoch, us + k * g_us), "ode", witness)
        if s is None:
            return
        samples.append(s)
    d = hill.d1_richardson(samples, g)
    f = hill.rhs(samples[4], n, accel, ori)
    rv = float(np.linalg.norm(d[:3] - f[:3]))
    ra = float(np.linalg.norm(d[3:] - f[3:]))
    rel = 1e-9 + 100 * 2e-16 / (n * g)
    w = dict(witness, t_us=us, g_us=g_us, ddt=d, rhs=f, state=samples[4])
    ctx.resid(f"ode:{tag}:kinematic", rv, rel * n * scale, key=f"C16/ode-residual-{tag}-kinematic", witness=w,
              msg=f"d/dt(position) - velocity = {rv:.3e} m/s")
    ctx.resid(f"ode:{tag}:dynamic", ra, rel * n * n * scale, key=f"C16/ode-residual-{tag}-dynamic", witness=w,
              msg=f"d/dt(velocity) - Hill rhs = {ra:.3e} m/s^2")
    ctx.count(f"ode:{tag}")


# ---------------------------------------------------------------------------------------------
def gen_queries_free(rng, T_us):
    qs = [int(rng.uniform(-2, 2) * T_us), int(rng.uniform(-2, 2) * T_us)]
    qs.append(int(rng.choice([-1, 1]) * 10 ** rng.uniform(-6, 0) * T_us))
    qs.append(rng.choice([0, 1, -1, T_us, -T_us, 2 * T_us, -2 * T_us, T_us // 2]))
    return qs


def case_free(ctx, job, idx, rng, st):
    from beyond.dates import timedelta

    sma = gen_sma(rng)
    n = math.sqrt(st["mu"] / sma ** 3)
    T_us = int(2 * math.pi / n * 1e6)
    rac, vkind = gen_rel_state(rng, n)
    epoch, edesc = gen_epoch(rng)
    queries = gen_queries_free(rng, T_us)
    ctx.case({"job": "free", "sma": sma, "state_rac": rac, "epoch": edesc, "queries_us": queries},
             nontrivial=any(q != 0 for q in queries))
    ctx.count("vel-kind:" + vkind)
    orbs, states = {}, {}
    for ori in ("QSW", "TNW"):
        states[ori] = to_axes(rac, ori)
        orbs[ori], _ = make_orbit(st, sma, ori, states[ori], epoch)
    P6 = hill.permutation6("QSW", "TNW")
    use_iter = rng.random() < 0.15
    results = {}
    for ori in ("QSW", "TNW"):
        ctx.count("orientation:" + ori)
        w0 = dict(sma=sma, n=n, orientation=ori, state0=states[ori], epoch=edesc)
        if use_iter:
            try:
                got_iter = [probe.arr(o) for o in orbs[ori].iter(dates=[date_at(epoch, q) for q in queries])]
                ctx.count("route:iter")
            except Exception as exc:
                ctx.violation("C16/iter-raises-free", dict(w0, exc=repr(exc)), f"iter(dates=) raised {exc!r}")
                got_iter = None
        for qi, q in enumerate(queries):
            t = q * 1e-6
            w = dict(w0, dt_us=q)
            if use_iter and got_iter is not None:
                got = got_iter[qi]
                if not np.all(np.isfinite(got)):
                    ctx.violation("C16/nonfinite-free", dict(w, got=got), "non-finite state from iter")
                    continue
            else:
                # alternate between Date and timedelta arguments
                arg = timedelta(microseconds=q) if (qi % 2) else date_at(epoch, q)
                got = lib_state(ctx, orbs[ori], arg, "free", w)
                if got is None:
                    continue
            results[(ori, q)] = got
            ctx.count("dt:negative" if q < 0 else ("dt:zero" if q == 0 else "dt:positive"))
            ref = hill.solve(states[ori], n, t, None, ori)
            scale = scale_of(states[ori], n, t)
            cmp_state(ctx, "ivp:free", got, ref, n, scale, REL_IVP, "C16/free-evolution", w,
                      f"free CW propagation over {t:.6f} s differs from the solution of Hill's equations")
            ctx.count("ivp:free")
    # TNW == permutation of QSW
    for q in queries:
        if ("QSW", q) in results and ("TNW", q) in results:
            scale = scale_of(states["QSW"], n, q * 1e-6)
            cmp_state(ctx, "perm", results[("TNW", q)], P6 @ results[("QSW", q)], n, scale, REL_PERM, "C16/tnw-permutation",
                      dict(sma=sma, state_qsw=states["QSW"], dt_us=q, epoch=edesc),
                      "TNW result is not the fixed axis permutation of the QSW result")
            ctx.count("perm:evaluated")
    # ODE residuals at two of the dates (one orientation each)
    for ori, q in (("QSW", queries[0]), ("TNW", queries[1])):
        scale = scale_of(states[ori], n, q * 1e-6 * 1.05)
        ode_residual(ctx, orbs[ori], epoch, q, 4 * T_us, n, ori, None, scale, "free",
                     dict(sma=sma, n=n, orientation=ori, state0=states[ori], epoch=edesc))
    # group law
    ori = rng.choice(["QSW", "TNW"])
    orb = orbs[ori]
    q = queries[rng.randrange(2)]
    q1 = int(rng.uniform(-2, 2) * T_us)
    w = dict(sma=sma, n=n, orientation=ori, state0=states[ori], epoch=edesc, t1_us=q1, t_us=q)
    try:
        x1 = orb.propagate(date_at(epoch, q1))
        second = date_at(epoch, q) if rng.random() < 0.5 else timedelta(microseconds=q - q1)
        x2 = probe.arr(x1.propagate(second))
        xb = probe.arr(x1.propagate(epoch))
        direct = probe.arr(orb.propagate(date_at(epoch, q)))
    except Exception as exc:
        ctx.violation("C16/propagate-raises-compose", dict(w, exc=repr(exc)), f"chained propagate raised {exc!r}")
        return
    s1 = scale_of(states[ori], n, q1 * 1e-6)
    cmp_state(ctx, "compose:free", x2, direct, n, s1 * (1 + abs(n * (q - q1) * 1e-6)) ** 2, REL_GROUP, "C16/compose-free", w,
              "propagate(t1).propagate(t) differs from propagate(t)")
    ctx.count("compose:free")
    cmp_state(ctx, "inverse:free", xb, states[ori], n, s1 * (1 + abs(n * q1 * 1e-6)) ** 2, REL_GROUP, "C16/inverse-free", w,
              "propagate(t1) followed by propagation back to the epoch does not restore the initial state")
    ctx.count("inverse:free")


# ---------------------------------------------------------------------------------------------
def gen_maneuvers(rng, n, T_us, min_count=1):
    """Chronologically ordered, non-overlapping (possibly touching) maneuvers after the epoch.

    Returns a list of dicts in (radial, along, cross) components with integer-microsecond times."""
    m = rng.randint(min_count, 4)
    span = rng.uniform(0.3, 1.9) * T_us
    weights = [rng.random() + 0.02 for _ in range(2 * m + 1)]
    tot = sum(weights)
    mans = []
    cursor = 0
    for k in range(m):
        gap = int(weights[2 * k] / tot * span)
        if k > 0 and rng.random() < 0.25:
            gap = 0  # touching maneuvers (impulse at the start/stop of a burn, back-to-back burns)
        if k == 0 and rng.random() < 0.2:
            gap = 0  # maneuver exactly at the epoch
        cursor += gap
        kind = rng.choice(["imp", "burn"])
        if kind == "imp":
            dv = rand_dir(rng) * 10 ** rng.uniform(-4, 0)
            if rng.random() < 0.2:
                dv = np.eye(3)[rng.randrange(3)] * rng.choice([-1, 1]) * 10 ** rng.uniform(-4, 0)
            mans.append({"kind": "imp", "t_us": cursor, "dv": dv})
        else:
            dur = max(2_000_000, int(weights[2 * k + 1] / tot * span))
            dur -= dur % 2  # even number of microseconds: date_pos='median' stays on the grid
            acc = rand_dir(rng) * 10 ** rng.uniform(-6, -2)
            if rng.random() < 0.2:
                acc = np.eye(3)[rng.randrange(3)] * rng.choice([-1, 1]) * 10 ** rng.uniform(-6, -2)
            # a burn following an impulse at the same instant is listed after it (as CWHelper.vbar_linear does)
            mans.append({"kind": "burn", "t_us": cursor, "stop_us": cursor + dur, "acc": acc,
                         "given": rng.choice(["accel", "dv"]), "date_pos": rng.choice(["start", "stop", "median"])})
            cursor += dur
    return mans


def build_lib_maneuvers(mans, ori, epoch):
    from beyond.dates import timedelta
    from beyond.orbits.man import ContinuousMan, ImpulsiveMan

    out = []
    for m in mans:
        if m["kind"] == "imp":
            out.append(ImpulsiveMan(date_at(epoch, m["t_us"]), vec_to_axes(m["dv"], ori)))
        else:
            dur_us = m["stop_us"] - m["t_us"]
            dur = timedelta(microseconds=dur_us)
            anchor = {"start": m["t_us"], "stop": m["stop_us"], "median": m["t_us"] + dur_us // 2}[m["date_pos"]]
            acc = vec_to_axes(m["acc"], ori)
            if m["given"] == "accel":
                out.append(ContinuousMan(date_at(epoch, anchor), dur, accel=acc, date_pos=m["date_pos"]))
            else:
                out.append(ContinuousMan(date_at(epoch, anchor), dur, dv=acc * (dur_us * 1e-6), date_pos=m["date_pos"]))
    return out


def oracle_maneuvers(mans, ori):
    out = []
    for m in mans:
        if m["kind"] == "imp":
            out.append(("imp", m["t_us"] * 1e-6, vec_to_axes(m["dv"], ori)))
        else:
            out.append(("burn", m["t_us"] * 1e-6, m["stop_us"] * 1e-6, vec_to_axes(m["acc"], ori)))
    return out


def breakpoints(mans):
    pts = set()
    for m in mans:
        pts.add(m["t_us"])
        if m["kind"] == "burn":
            pts.add(m["stop_us"])
    return sorted(pts)


def classify(mans, q):
    """Oracle-side class of a query date: 'before', 'inside-burn', 'at-impulse', 'after'."""
    if not mans or q < mans[0]["t_us"]:
        return "before"
    for m in mans:
        if m["kind"] == "imp" and m["t_us"] == q:
            return "at-impulse"
    for m in mans:
        if m["kind"] == "burn" and m["t_us"] <= q < m["stop_us"]:
            return "inside-burn"
    return "after"


def mans_descr(mans):
    return [{k: (v.tolist() if isinstance(v, np.ndarray) else v) for k, v in m.items()} for m in mans]


def case_mans(ctx, job, idx, rng, st):
    sma = gen_sma(rng)
    n = math.sqrt(st["mu"] / sma ** 3)
    T_us = int(2 * math.pi / n * 1e6)
    rac, vkind = gen_rel_state(rng, n)
    epoch, edesc = gen_epoch(rng)
    mans = gen_maneuvers(rng, n, T_us)
    bps = breakpoints(mans)
    end = bps[-1]
    # query dates
    queries = [int(rng.uniform(-2, 0) * T_us)]
    for m in mans:
        if m["kind"] == "imp":
            queries += [m["t_us"] - 1, m["t_us"], m["t_us"] + 1]
        else:
            queries += [m["t_us"] + rng.choice([-1, 0, 1]), rng.randint(m["t_us"] + 2, m["stop_us"] - 2), m["stop_us"] + rng.choice([-1, 0, 1])]
    for lo, hi in zip([0] + bps, bps):
        if hi - lo > 4:
            queries.append(rng.randint(lo + 2, hi - 2))
    queries.append(rng.randint(end + 2, max(end + 10, 2 * T_us)))
    queries.append(rng.randint(end + 2, max(end + 10, 2 * T_us)))
    queries = [q for q in queries if q >= -2 * T_us]
    ctx.case({"job": "mans", "sma": sma, "state_rac": rac, "epoch": edesc, "mans": mans_descr(mans), "queries_us": queries})
    for m in mans:
        ctx.count("man:" + m["kind"])
        if m["kind"] == "burn":
            ctx.count("burn:given-" + m["given"])
            ctx.count("burn:date_pos-" + m["date_pos"])
    dv_sum = sum(float(np.linalg.norm(m["dv"])) for m in mans if m["kind"] == "imp")
    acc_sum = sum(float(np.linalg.norm(m["acc"])) for m in mans if m["kind"] == "burn")
    P6 = hill.permutation6("QSW", "TNW")
    results = {}
    orbs, states, omans = {}, {}, {}
    for ori in ("QSW", "TNW"):
        ctx.count("orientation:" + ori)
        states[ori] = to_axes(rac, ori)
        orbs[ori], _ = make_orbit(st, sma, ori, states[ori], epoch)
        if idx % 3 == 0:
            # history: the orbit is propagated once BEFORE its maneuvers are attached (plan a burn after a first look)
            try:
                orbs[ori].propagate(date_at(epoch, rng.randint(0, max(end, T_us))))
                ctx.count("history:propagated-before-maneuvers-attached")
            except Exception as exc:
                ctx.violation("C16/propagate-raises-free", dict(sma=sma, exc=repr(exc)), repr(exc))
        bystander = None
        try:
            if idx % 3 == 1:
                # history: a second chaser of the same target exists, without any maneuver; the maneuvers of the first are
                # attached in place (orb.maneuvers.extend(...), as the documentation of the helper does)
                bystander, _p = make_orbit(st, sma, ori, states[ori], epoch)
                orbs[ori].maneuvers.extend(build_lib_maneuvers(mans, ori, epoch))
                ctx.count("history:maneuvers-attached-in-place-with-a-bystander")
            else:
                orbs[ori].maneuvers = build_lib_maneuvers(mans, ori, epoch)
        except Exception as exc:
            ctx.violation("C16/maneuver-constructor-raises", dict(mans=mans_descr(mans), exc=repr(exc)), repr(exc))
            return
        if bystander is not None:
            qb = rng.randint(end + 2, max(end + 10, 2 * T_us))
            wb = dict(sma=sma, n=n, orientation=ori, state0=states[ori], epoch=edesc, mans_of_the_other_orbit=mans_descr(mans), dt_us=qb)
            gotb = lib_state(ctx, bystander, date_at(epoch, qb), "bystander", wb)
            if gotb is not None:
                refb = hill.trajectory(states[ori], n, [], qb * 1e-6, ori)
                cmp_state(ctx, "ivp:bystander-without-maneuvers", gotb, refb, n, scale_of(states[ori], n, qb * 1e-6), REL_IVP,
                          "C16/orbit-without-maneuvers-receives-those-of-another-orbit", wb,
                          "a second orbit without maneuvers does not follow the free motion after maneuvers were attached in place to the first")
        omans[ori] = oracle_maneuvers(mans, ori)
        w0 = dict(sma=sma, n=n, orientation=ori, state0=states[ori], epoch=edesc, mans=mans_descr(mans))
        for q in queries:
            t = q * 1e-6
            w = dict(w0, dt_us=q)
            cls = classify(mans, q)
            qdate = date_at(epoch, q)
            if idx % 4 == 1:
                # the same instant under another scale label (no tables needed: TT = TAI + 32.184 s, GPS = TAI - 19 s):
                # the elapsed time is a property of the two instants
                lab = ("TT", "GPS", "TAI")[(idx // 4 + len(results)) % 3]
                qdate = qdate.change_scale(lab)
                ctx.count("request-label:" + lab)
                w["request_label"] = lab
            got = lib_state(ctx, orbs[ori], qdate, "maneuvers", w)
            if got is None:
                continue
            results[(ori, q)] = got
            scale = scale_of(states[ori], n, t, dv_sum, acc_sum)
            if q < 0:
                ctx.count("dt:negative")
            if cls == "at-impulse":
                # exactly at the date: either side of the jump is accepted (the statement fixes the
                # effect around the date, not the convention at the instant itself)
                refs = [hill.trajectory(states[ori], n, omans[ori], t, ori, at_date=a) for a in ("pre", "post")]
                errs = [np.linalg.norm(got[:3] - r[:3]) / scale + np.linalg.norm(got[3:] - r[3:]) / (n * scale) for r in refs]
                ref = refs[int(np.argmin(errs))]
                ctx.count("at-date:" + ("pre", "post")[int(np.argmin(errs))])
                name, key = "ivp:at-impulse", "C16/impulse-at-date-neither-side"
            else:
                ref = hill.trajectory(states[ori], n, omans[ori], t, ori)
                name, key = {
                    "before": ("ivp:before-maneuvers", "C16/maneuver-applied-before-its-date"),
                    "inside-burn": ("ivp:inside-burn", "C16/thrust-evolution"),
                    "after": ("ivp:after-maneuver", "C16/maneuver-sequencing"),
                }[cls]
            cmp_state(ctx, name, got, ref, n, scale, REL_IVP, key, dict(w, query_class=cls),
                      f"state at a date {cls} the maneuvers differs from Hill's equations with the stated maneuvers")
            ctx.count(name)
    # history route: the same dates requested as ONE stream from the same initialised propagator (iter / ephem):
    # every maneuver must still be applied exactly once for every requested date, whatever was requested before
    for ori in ("QSW", "TNW"):
        qs = sorted(set(q for q in queries if q >= 0 and classify(mans, q) != "at-impulse" and (ori, q) in results))
        if len(qs) < 2:
            continue
        w = dict(sma=sma, n=n, orientation=ori, state0=states[ori], epoch=edesc, mans=mans_descr(mans), stream_us=qs)
        try:
            stream = [probe.arr(o) for o in orbs[ori].iter(dates=[date_at(epoch, q) for q in qs])]
        except Exception as exc:
            ctx.violation("C16/iter-raises-maneuvers", dict(w, exc=repr(exc)), f"iter(dates=) with maneuvers raised {exc!r}")
            continue
        ctx.expect(len(stream) == len(qs), "C16/iter-stream-length-maneuvers", w, f"iter(dates=) yielded {len(stream)} states for {len(qs)} dates")
        for q, got in zip(qs, stream):
            scale = scale_of(states[ori], n, q * 1e-6, dv_sum, acc_sum)
            cmp_state(ctx, "stream:vs-single-request", got, results[(ori, q)], n, scale, REL_PERM, "C16/maneuver-effect-depends-on-earlier-requests",
                      dict(w, dt_us=q, first_maneuver_us=mans[0]["t_us"]),
                      "state yielded by iter(dates=) differs from the state returned by a single propagate() to the same date "
                      "(a maneuver is not applied exactly once when several dates are requested from the same propagator)")
            ctx.count("stream:evaluated")
        if mans[0]["t_us"] == 0:
            ctx.count("stream:maneuver-at-epoch")
    for q in queries:
        if ("QSW", q) in results and ("TNW", q) in results:
            scale = scale_of(states["QSW"], n, q * 1e-6, dv_sum, acc_sum)
            cmp_state(ctx, "perm", results[("TNW", q)], P6 @ results[("QSW", q)], n, scale, REL_PERM, "C16/tnw-permutation",
                      dict(sma=sma, state_qsw=states["QSW"], dt_us=q, epoch=edesc, mans=mans_descr(mans)),
                      "TNW result (maneuvers permuted) is not the fixed axis permutation of the QSW result")
            ctx.count("perm:evaluated")
    # jump conditions across every impulse that is not at a burn boundary or shared date
    for ori in ("QSW", "TNW"):
        for m in mans:
            if m["kind"] != "imp":
                continue
            tm = m["t_us"]
            same = [x for x in mans if x is not m and (x["t_us"] == tm or x.get("stop_us") == tm)]
            a, b = results.get((ori, tm - 1)), results.get((ori, tm + 1))
            if a is None or b is None:
                continue
            dv = vec_to_axes(m["dv"], ori) + sum((vec_to_axes(x["dv"], ori) for x in same if x["kind"] == "imp"), np.zeros(3))
            # relative acceleration bound (Coriolis + gradient + thrust) x 2 us, + rounding
            vmax = max(np.linalg.norm(a[3:]), np.linalg.norm(b[3:]))
            rmax = max(np.linalg.norm(a[:3]), np.linalg.norm(b[:3]))
            amax = 2 * n * vmax + 3 * n * n * rmax + acc_sum
            scale = scale_of(states[ori], n, tm * 1e-6, dv_sum, acc_sum)
            w = dict(sma=sma, n=n, orientation=ori, state0=states[ori], epoch=edesc, mans=mans_descr(mans), t_m_us=tm,
                     before=a, after=b, dv=dv)
            jv = float(np.linalg.norm(b[3:] - a[3:] - dv))
            jp = float(np.linalg.norm(b[:3] - a[:3]))
            # tol: 3 x (bound on the smooth change over 2 us) + 1e-11 x scale (cancellation of two states)
            ctx.resid("jump:velocity", jv, 3 * amax * 2e-6 + 1e-11 * n * scale, key="C16/impulse-jump", witness=w,
                      msg=f"velocity change across the impulse date differs from its delta-v by {jv:.3e} m/s")
            ctx.resid("jump:position", jp, 3 * vmax * 2e-6 + 1e-11 * scale, key="C16/impulse-position-discontinuity", witness=w,
                      msg=f"position jumps by {jp:.3e} m across the impulse date")
            ctx.count("jump:evaluated")
    # ODE residual inside one burn and in one coast segment
    ori = rng.choice(["QSW", "TNW"])
    w0 = dict(sma=sma, n=n, orientation=ori, state0=states[ori], epoch=edesc, mans=mans_descr(mans))
    burns = [m for m in mans if m["kind"] == "burn"]
    if burns:
        m = rng.choice(burns)
        mid = (m["t_us"] + m["stop_us"]) // 2
        half = (m["stop_us"] - m["t_us"]) // 2 - 2
        scale = scale_of(states[ori], n, m["stop_us"] * 1e-6, dv_sum, acc_sum)
        ode_residual(ctx, orbs[ori], epoch, mid, half, n, ori, vec_to_axes(m["acc"], ori), scale, "thrust", w0)
    segs = [(lo, hi) for lo, hi in zip(bps, bps[1:] + [bps[-1] + T_us]) if classify(mans, (lo + hi) // 2) == "after"]
    if segs:
        lo, hi = rng.choice(segs)
        scale = scale_of(states[ori], n, hi * 1e-6, dv_sum, acc_sum)
        ode_residual(ctx, orbs[ori], epoch, (lo + hi) // 2, (hi - lo) // 2 - 2, n, ori, None, scale, "coast-after-maneuver", w0)
    # group law through the maneuver list
    compose_with_maneuvers(ctx, rng, orbs[ori], states[ori], n, ori, epoch, mans, T_us, dv_sum, acc_sum, w0)


def compose_with_maneuvers(ctx, rng, orb, state0, n, ori, epoch, mans, T_us, dv_sum, acc_sum, w0):
    first = mans[0]["t_us"]
    end = breakpoints(mans)[-1]
    # (a) intermediate date before every maneuver: must compose whatever the final date is
    if first > 4:
        q1 = rng.randint(1, first - 1) if rng.random() < 0.7 else int(rng.uniform(-1, 0) * T_us)
        q = rng.randint(q1, max(end + 10, 2 * T_us))
        _compose(ctx, orb, state0, n, epoch, q1, q, dv_sum, acc_sum, "compose:before-maneuvers", "C16/compose-before-maneuvers", w0,
                 "propagate(t1).propagate(t) with every maneuver after t1 differs from propagate(t)")
    # (b) intermediate date after at least one maneuver has started: the returned Orbit carries the same maneuver list
    q1 = rng.randint(first, max(end + 10, 2 * T_us))
    q = rng.randint(q1, max(end + 10, 2 * T_us) + 1)
    _compose(ctx, orb, state0, n, epoch, q1, q, dv_sum, acc_sum, "compose:past-maneuver", "C16/compose-past-maneuver-reapplied", w0,
             "propagate(t1).propagate(t) differs from propagate(t) when a maneuver lies at or before t1 "
             "(the returned Orbit carries the maneuver list and maneuvers dated before its own epoch are applied again)")
    # (c) backwards across maneuvers: inverse
    # an impulse dated exactly at the epoch: the state *at* an impulse date is a matter of convention (see
    # 'at-impulse' above), so coming back to the epoch either side of that jump is accepted
    kick0 = sum((vec_to_axes(m["dv"], ori) for m in mans if m["kind"] == "imp" and m["t_us"] == 0), np.zeros(3))
    alt = np.array(state0, float) + np.concatenate([np.zeros(3), kick0]) if np.any(kick0) else None
    _compose(ctx, orb, state0, n, epoch, q1, 0, dv_sum, acc_sum, "inverse:across-maneuver", "C16/inverse-across-maneuver", w0,
             "propagate(t1) then back to the epoch does not restore the initial state when a maneuver lies in between", alt=alt)


def _compose(ctx, orb, state0, n, epoch, q1, q, dv_sum, acc_sum, name, key, w0, msg, alt=None):
    w = dict(w0, t1_us=q1, t_us=q)
    try:
        x1 = orb.propagate(date_at(epoch, q1))
        x2 = probe.arr(x1.propagate(date_at(epoch, q)))
        direct = probe.arr(orb.propagate(date_at(epoch, q))) if q != 0 else np.array(state0, float)
    except Exception as exc:
        ctx.violation("C16/propagate-raises-compose", dict(w, exc=repr(exc)), f"chained propagate raised {exc!r}")
        return
    scale = scale_of(state0, n, q1 * 1e-6, dv_sum, acc_sum) * (1 + abs(n * (q - q1) * 1e-6)) ** 2
    if alt is not None and np.linalg.norm(x2[3:] - alt[3:]) < np.linalg.norm(x2[3:] - direct[3:]):
        direct = alt
    cmp_state(ctx, name, x2, direct, n, scale, REL_GROUP, key, w, msg)
    ctx.count(name)


# ---------------------------------------------------------------------------------------------
def case_nonlinear(ctx, job, idx, rng, st):
    mu = st["mu"]
    sma = gen_sma(rng)
    n = math.sqrt(mu / sma ** 3)
    T_us = int(2 * math.pi / n * 1e6)
    # separation decades rotated deterministically so that each is populated
    dec = 1 + idx % 3
    lo, hi = {1: (10.0, 100.0), 2: (100.0, 1000.0), 3: (1000.0, 5000.0)}[dec]
    rho = math.exp(rng.uniform(math.log(lo), math.log(hi)))
    x = rand_dir(rng) * rho if rng.random() < 0.8 else np.eye(3)[rng.randrange(3)] * rng.choice([-1, 1]) * rho
    vk = rng.choice(["zero", "natural", "natural", "log", "axis"])
    if vk == "zero":
        v = np.zeros(3)
    elif vk == "natural":
        v = rand_dir(rng) * min(5.0, rng.uniform(0, 3) * n * rho)
    elif vk == "log":
        v = rand_dir(rng) * min(5.0, 10 ** rng.uniform(-3, 0.7))
    else:
        v = np.eye(3)[rng.randrange(3)] * rng.choice([-1, 1]) * min(5.0, rng.uniform(0, 2) * n * rho)
    rac = np.concatenate([x, v])
    f = rng.choice([rng.uniform(-2, 2), rng.choice([-1, 1]) * 10 ** rng.uniform(-3, 0.3)])
    q = int(f * T_us)
    t = q * 1e-6
    inc, raan, u = rng.uniform(0.05, math.pi - 0.05), rng.uniform(0, 2 * math.pi), rng.uniform(0, 2 * math.pi)
    ori = rng.choice(["QSW", "TNW"])
    epoch, edesc = gen_epoch(rng)
    ctx.case({"job": "nonlinear", "sma": sma, "state_rac": rac, "dt_us": q, "plane": [inc, raan, u], "ori": ori, "epoch": edesc})
    ctx.count(f"nonlinear:rho-decade-{dec}")
    ctx.count("orientation:" + ori)
    if q < 0:
        ctx.count("dt:negative")
    R, V = hill.circular_target(sma, mu, inc, raan, u)
    truth = hill.relative_truth(R, V, rac, t, mu)  # (radial, along, cross) = QSW components
    state = to_axes(rac, ori)
    orb, _ = make_orbit(st, sma, ori, state, epoch)
    w = dict(sma=sma, n=n, orientation=ori, state0=state, dt_us=q, target_R=R, target_V=V, mu=mu, epoch=edesc)
    got = lib_state(ctx, orb, date_at(epoch, q), "nonlinear", w)
    if got is None:
        return
    got_rac = np.concatenate([hill.decompose(got[:3], ori), hill.decompose(got[3:], ori)])
    S = (rho + np.linalg.norm(v) / n) * (1 + abs(n * t))
    D = S * S / sma
    rp = float(np.linalg.norm(got_rac[:3] - truth[:3])) / D
    rv = float(np.linalg.norm(got_rac[3:] - truth[3:])) / (n * D)
    w.update(got_rac=got_rac, truth_rac=truth, S=S)
    ctx.resid(f"nonlinear:pos-ratio:decade{dec}", rp, NONLIN_RATIO, key="C16/nonlinear-second-order", witness=w,
              msg=f"|CW - two-Kepler truth| = {rp:.3g} x S^2/a (S = {S:.4g} m): not second order in the separation")
    ctx.resid(f"nonlinear:vel-ratio:decade{dec}", rv, NONLIN_RATIO, key="C16/nonlinear-second-order", witness=w,
              msg=f"|CW - two-Kepler truth| (velocity) = {rv:.3g} x n S^2/a: not second order in the separation")
    ctx.count("nonlinear:evaluated")


# ---------------------------------------------------------------------------------------------
# CWHelper

HELPER_KINDS = ["coelliptic", "hohmann", "hohmann", "eccentric_boost", "eccentric_boost", "tangential_boost", "vbar_linear"]


def case_helper(ctx, job, idx, rng, st):
    from beyond.dates import timedelta
    from beyond.orbits import Orbit
    from beyond.orbits.man import ContinuousMan, ImpulsiveMan
    from beyond.propagators.cw import ClohessyWiltshire
    from beyond.utils.cwhelper import CWHelper

    kind = HELPER_KINDS[idx % len(HELPER_KINDS)]
    sma = gen_sma(rng)
    n = math.sqrt(st["mu"] / sma ** 3)
    T = 2 * math.pi / n
    ori = rng.choice(["QSW", "TNW"])
    continuous = kind in ("hohmann", "eccentric_boost") and rng.random() < 0.5
    epoch, edesc = gen_epoch(rng)
    sign = rng.choice([-1, 1])
    dist = sign * math.exp(rng.uniform(math.log(10.0), math.log(5000.0)))  # distance to cover
    y0 = rng.uniform(-5000, 5000)
    lead_us = rng.choice([0, rng.randint(1, int(0.5 * T * 1e6))])  # coast before the first maneuver
    delay_us = rng.choice([0, 1, rng.randint(1, int(0.5 * T * 1e6))])  # coast after the last one
    approach_speed = 10 ** rng.uniform(-2, 0)
    descr = {"job": "helper", "kind": kind, "continuous": continuous, "sma": sma, "ori": ori, "dist": dist, "y0": y0,
             "lead_us": lead_us, "delay_us": delay_us, "epoch": edesc, "speed": approach_speed if kind == "vbar_linear" else None}
    ctx.case(descr)
    ctx.count("helper:" + kind)
    ctx.count("orientation:" + ori)
    if continuous:
        ctx.count(f"helper:{kind}:continuous")
    key = f"C16/helper-{kind.replace('_', '-')}" + ("-continuous" if continuous else "")
    w = dict(descr, n=n)
    try:
        prop = ClohessyWiltshire(sma, frame=st["frames"][ori])
        helper = CWHelper(prop)
        period_us = round(helper.period.total_seconds() * 1e6)
        # the helper's period is part of its announcements (timedelta => 1 us resolution)
        ctx.resid("helper:period", abs(period_us * 1e-6 - T), 1e-6, key="C16/helper-period", witness=w,
                  msg=f"helper.period = {period_us * 1e-6!r} s, 2 pi / n = {T!r}")
        date_m = date_at(epoch, lead_us)
        if kind == "coelliptic":
            x0 = dist
            orb = helper.coelliptic(epoch, x0, y0)
            mans, t_end_us = [], lead_us
        elif kind == "hohmann":
            # documented use (doc/source/_static/docking.py): chaser coelliptic at radial x0, transfer of -x0
            general = rng.random() < 0.4
            x0 = -dist if not general else rng.uniform(-5000, 5000)
            orb = helper.coelliptic(epoch, x0, y0)
            mans = list(helper.hohmann(dist, date_m, continuous=continuous))
            t_end_us = lead_us + (period_us if continuous else round(period_us / 2))
            w.update(x0=x0, general_start=general)
            ctx.count("helper:hohmann:" + ("general-start" if general else "to-target-radius"))
        elif kind == "eccentric_boost":
            x0 = 0.0
            orb = helper.coelliptic(epoch, 0.0, y0)
            mans = list(helper.eccentric_boost(dist, date_m, continuous=continuous))
            t_end_us = lead_us + (period_us if continuous else round(period_us / 2))
        elif kind == "tangential_boost":
            x0 = 0.0
            orb = helper.coelliptic(epoch, 0.0, y0)
            mans = list(helper.tangential_boost(dist, date_m))
            t_end_us = lead_us + period_us
        else:
            x0 = 0.0
            orb = helper.coelliptic(epoch, 0.0, y0)
            mans = list(helper.vbar_linear(dist, date_m, approach_speed))
            dur_us = round(abs(dist / approach_speed) * 1e6)
            t_end_us = lead_us + dur_us
        orb.maneuvers = mans
        # the end of the maneuver is read from the helper's own maneuver objects (its timedelta arithmetic
        # rounds period/2 and |tangential/dv| to whole microseconds); it must match the announcement to 1 us
        if mans:
            ends = [m.date if isinstance(m, ImpulsiveMan) else m.stop for m in mans]
            lib_end_us = max(round((d - epoch).total_seconds() * 1e6) for d in ends)
            ctx.resid("helper:end-date", abs(lib_end_us - t_end_us) * 1e-6, 1.5e-6, key=key + "-duration", witness=dict(w, lib_end_us=lib_end_us, announced_end_us=t_end_us),
                      msg=f"{kind}: last maneuver ends {lib_end_us} us after the epoch, announced duration gives {t_end_us} us")
            t_end_us = lib_end_us
    except Exception as exc:
        ctx.violation(key + "-raises", dict(w, exc=repr(exc)), f"helper raised {exc!r}")
        return

    init = probe.arr(orb)
    init_rac = np.concatenate([hill.decompose(init[:3], ori), hill.decompose(init[3:], ori)])
    # the announced initial orbit: (radial, tangential) = (x0, y0), coelliptic velocity -1.5 n x0 along track
    L = abs(x0) + abs(y0) + abs(dist) + 1.0
    exp_init = np.array([x0, y0, 0.0, 0.0, -1.5 * n * x0, 0.0])
    ctx.resid("helper:coelliptic-initial-state", float(np.linalg.norm(init_rac[:3] - exp_init[:3]) + np.linalg.norm(init_rac[3:] - exp_init[3:]) / n),
              1e-12 * L, key="C16/helper-coelliptic-initial-state", witness=dict(w, got=init_rac, expected=exp_init),
              msg="coelliptic() does not place the chaser at the requested radial/tangential distance with the coelliptic velocity")

    def state_at(us):
        s = lib_state(ctx, orb, date_at(epoch, us), "helper", dict(w, t_us=us))
        if s is None:
            return None
        return np.concatenate([hill.decompose(s[:3], ori), hill.decompose(s[3:], ori)])

    # tolerances: the helper rounds period / durations to whole microseconds, so an impulse may be late by
    # <= 1 us: position error <= (relative speed) x 1 us, velocity error <= (relative acceleration) x 1 us;
    # plus 1e-10 x lengths for rounding (noise measured 1e-13 L).  Margin 3.
    vrel = 1.5 * n * abs(x0) + 2 * n * abs(dist) + (approach_speed if kind == "vbar_linear" else 0.0)
    tol_p = 1e-10 * L * (1 + n * (t_end_us + delay_us) * 1e-6) + 3 * vrel * 1e-6
    tol_v = n * tol_p + 3 * (3 * n * n * L + 2 * n * vrel) * 1e-6

    end = state_at(t_end_us + delay_us)
    start = state_at(lead_us)
    if end is None or start is None:
        return
    w.update(start=start, end=end, t_end_us=t_end_us)
    dly = delay_us * 1e-6
    if kind == "coelliptic":
        # drift: radial distance constant, along-track rate -1.5 n x0, no cross-track motion
        t = lead_us * 1e-6
        exp = np.array([x0, y0 - 1.5 * n * x0 * t, 0.0, 0.0, -1.5 * n * x0, 0.0])
        ctx.resid("helper:coelliptic:radial", abs(start[0] - exp[0]), tol_p, key=key, witness=w, msg="coelliptic orbit: radial distance not constant")
        ctx.resid("helper:coelliptic:along", abs(start[1] - exp[1]), tol_p * (1 + n * t), key=key, witness=w,
                  msg="coelliptic orbit: along-track drift differs from -1.5 n radial t")
        ctx.resid("helper:coelliptic:velocity", float(np.linalg.norm(start[3:] - exp[3:])), tol_v, key=key, witness=w,
                  msg="coelliptic orbit: relative velocity not (0, -1.5 n radial, 0)")
        ctx.resid("helper:coelliptic:cross", abs(start[2]), tol_p, key=key, witness=w, msg="coelliptic orbit: cross-track motion")
        return
    x_end_expected = x0 + dist if kind == "hohmann" else 0.0
    # after the maneuver the chaser is on the coelliptic orbit of its new radial distance (at rest if that is 0)
    drift = -1.5 * n * x_end_expected
    ctx.resid(f"helper:{kind}:radial", abs(end[0] - x_end_expected), tol_p, key=key + "-radial", witness=w,
              msg=f"{kind}: radial position after the maneuver {end[0]!r}, announced {x_end_expected!r}")
    ctx.resid(f"helper:{kind}:final-velocity", float(np.linalg.norm(end[3:] - np.array([0.0, drift, 0.0]))), tol_v, key=key + "-rest", witness=w,
              msg=f"{kind}: relative velocity after the maneuver {end[3:]!r}, announced (0, {drift!r}, 0)")
    ctx.resid(f"helper:{kind}:cross", abs(end[2]), tol_p, key=key + "-cross", witness=w, msg=f"{kind}: cross-track motion")
    if kind == "hohmann":
        if not w["general_start"]:
            # travel announced by hohmann_distance(chaser radial position): start there to arrive at the target
            announced = -float(helper.hohmann_distance(x0, continuous=continuous))
            ctx.resid("helper:hohmann:along", abs((end[1] - start[1]) - announced), tol_p * 3, key=key + "-along", witness=dict(w, announced=announced),
                      msg=f"hohmann: along-track travel {end[1] - start[1]!r}, announced by hohmann_distance {announced!r}")
    else:
        ctx.resid(f"helper:{kind}:along", abs((end[1] - start[1]) - dist), tol_p * 3, key=key + "-along", witness=w,
                  msg=f"{kind}: along-track travel {end[1] - start[1]!r}, announced {dist!r}")
    if kind == "vbar_linear":
        # linear: at a fraction f of the duration the chaser has covered f x tangential on the V-bar (radial 0)
        f = rng.uniform(0.05, 0.95)
        us = lead_us + int(f * (t_end_us - lead_us))
        mid = state_at(us)
        if mid is not None:
            frac = (us - lead_us) / (t_end_us - lead_us)
            ctx.resid("helper:vbar_linear:mid-along", abs((mid[1] - start[1]) - frac * dist), tol_p * 3, key=key + "-not-linear", witness=dict(w, mid=mid, frac=frac),
                      msg="vbar_linear: along-track position not linear in time")
            ctx.resid("helper:vbar_linear:mid-radial", abs(mid[0]), tol_p * 3, key=key + "-leaves-vbar", witness=dict(w, mid=mid, frac=frac),
                      msg="vbar_linear: chaser leaves the V-bar during the approach")
    # the same maneuvers under the reference model (separates helper errors from propagator errors)
    omans = []
    for m in mans:
        if isinstance(m, ImpulsiveMan):
            omans.append(("imp", round((m.date - epoch).total_seconds() * 1e6) * 1e-6, np.array(m._dv, float)))
        elif isinstance(m, ContinuousMan):
            omans.append(("burn", round((m.start - epoch).total_seconds() * 1e6) * 1e-6, round((m.stop - epoch).total_seconds() * 1e6) * 1e-6,
                          np.array(m._accel, float)))
    tq = (t_end_us + delay_us) * 1e-6
    ref = hill.trajectory(init, n, omans, tq, ori)
    got = lib_state(ctx, orb, date_at(epoch, t_end_us + delay_us), "helper", w)
    if got is not None:
        dv_sum = sum(np.linalg.norm(m[2]) for m in omans if m[0] == "imp")
        acc_sum = sum(np.linalg.norm(m[3]) for m in omans if m[0] == "burn")
        cmp_state(ctx, "helper:vs-reference", got, ref, n, scale_of(init, n, tq, dv_sum, acc_sum), REL_IVP, "C16/maneuver-sequencing",
                  dict(w, omans=[[str(x) for x in m] for m in omans]), "helper maneuvers: CW result differs from Hill's equations with the same maneuvers")


# ---------------------------------------------------------------------------------------------
def case_overlap(ctx, job, idx, rng, st):
    """An impulse strictly inside a burn, or two burns that overlap (list ordered by starting date)."""
    if idx % 2 == 1:
        return case_overlap_burns(ctx, job, idx, rng, st)
    sma = gen_sma(rng)
    n = math.sqrt(st["mu"] / sma ** 3)
    T_us = int(2 * math.pi / n * 1e6)
    rac, _ = gen_rel_state(rng, n)
    epoch, edesc = gen_epoch(rng)
    ts = rng.randint(1, T_us // 2)
    te = ts + rng.randint(T_us // 20, T_us // 2)
    te -= (te - ts) % 2
    tm = rng.randint(ts + 2, te - 2)
    mans = [
        {"kind": "burn", "t_us": ts, "stop_us": te, "acc": rand_dir(rng) * 10 ** rng.uniform(-5, -2), "given": "accel", "date_pos": "start"},
        {"kind": "imp", "t_us": tm, "dv": rand_dir(rng) * 10 ** rng.uniform(-3, 0)},
    ]
    ori = rng.choice(["QSW", "TNW"])
    ctx.case({"job": "overlap", "sma": sma, "state_rac": rac, "epoch": edesc, "mans": mans_descr(mans), "ori": ori})
    ctx.count("orientation:" + ori)
    state = to_axes(rac, ori)
    orb, _ = make_orbit(st, sma, ori, state, epoch)
    orb.maneuvers = build_lib_maneuvers(mans, ori, epoch)
    om = oracle_maneuvers(mans, ori)
    dv_sum, acc_sum = float(np.linalg.norm(mans[1]["dv"])), float(np.linalg.norm(mans[0]["acc"]))
    w0 = dict(sma=sma, n=n, orientation=ori, state0=state, epoch=edesc, mans=mans_descr(mans))
    for label, q in (("inside-burn-before-impulse", rng.randint(ts, tm - 1)), ("inside-burn-after-impulse", rng.randint(tm + 1, te - 1)),
                     ("after-burn", rng.randint(te, te + T_us))):
        got = lib_state(ctx, orb, date_at(epoch, q), "overlap", dict(w0, dt_us=q))
        if got is None:
            continue
        ref = hill.trajectory(state, n, om, q * 1e-6, ori)
        key = "C16/thrust-evolution" if label == "inside-burn-before-impulse" else "C16/impulse-inside-burn-" + ("ignored" if "inside" in label else "misplaced")
        cmp_state(ctx, "overlap:" + label, got, ref, n, scale_of(state, n, q * 1e-6, dv_sum, acc_sum), REL_IVP, key,
                  dict(w0, dt_us=q, query_class=label), f"impulse dated inside a burn: state {label} differs from Hill's equations with both maneuvers")
        ctx.count("overlap:" + label)


def case_overlap_burns(ctx, job, idx, rng, st):
    """Two constant-thrust burns ordered by ignition date whose intervals overlap (a long along-track burn and a shorter
    correction started before the first one stops; the second may end before or after the first)."""
    sma = gen_sma(rng)
    n = math.sqrt(st["mu"] / sma ** 3)
    T_us = int(2 * math.pi / n * 1e6)
    rac, _ = gen_rel_state(rng, n)
    epoch, edesc = gen_epoch(rng)
    a0 = rng.randint(1, T_us // 2)
    a1 = a0 + rng.randint(T_us // 20, T_us // 2)
    b0 = rng.randint(a0 + 2, a1 - 4)
    nested = rng.random() < 0.4
    b1 = rng.randint(b0 + 2, a1 - 2) if nested else a1 + rng.randint(2, T_us // 3)
    mans = [
        {"kind": "burn", "t_us": a0, "stop_us": a1, "acc": rand_dir(rng) * 10 ** rng.uniform(-5, -2), "given": "accel", "date_pos": "start"},
        {"kind": "burn", "t_us": b0, "stop_us": b1, "acc": rand_dir(rng) * 10 ** rng.uniform(-5, -2), "given": "accel", "date_pos": "start"},
    ]
    ori = rng.choice(["QSW", "TNW"])
    ctx.case({"job": "overlap-burns", "sma": sma, "state_rac": rac, "epoch": edesc, "mans": mans_descr(mans), "ori": ori, "nested": nested})
    ctx.count("orientation:" + ori)
    state = to_axes(rac, ori)
    orb, _ = make_orbit(st, sma, ori, state, epoch)
    orb.maneuvers = build_lib_maneuvers(mans, ori, epoch)
    om = oracle_maneuvers(mans, ori)
    acc_sum = float(np.linalg.norm(mans[0]["acc"]) + np.linalg.norm(mans[1]["acc"]))
    w0 = dict(sma=sma, n=n, orientation=ori, state0=state, epoch=edesc, mans=mans_descr(mans), nested=nested)
    end = max(a1, b1)
    queries = [("first-burn-alone", rng.randint(a0, b0 - 1)), ("inside-both-burns", rng.randint(b0 + 1, min(a1, b1) - 1)),
               ("after-both-burns", rng.randint(end, end + T_us)), ("after-both-burns", end)]
    if nested:
        queries.append(("first-burn-after-the-nested-one-stopped", rng.randint(b1, a1 - 1)))
    else:
        queries.append(("second-burn-after-the-first-one-stopped", rng.randint(a1, b1 - 1)))
    for label, q in queries:
        got = lib_state(ctx, orb, date_at(epoch, q), "overlap-burns", dict(w0, dt_us=q))
        if got is None:
            continue
        ref = hill.trajectory(state, n, om, q * 1e-6, ori)
        key = {"first-burn-alone": "C16/thrust-evolution", "inside-both-burns": "C16/burn-started-inside-a-burn-ignored-while-the-first-one-lasts",
               "first-burn-after-the-nested-one-stopped": "C16/burn-started-inside-a-burn-ignored-while-the-first-one-lasts"}.get(label, "C16/overlapping-burns-" + label)
        cmp_state(ctx, "overlap-burns:" + label, got, ref, n, scale_of(state, n, q * 1e-6, 0.0, acc_sum), REL_IVP, key,
                  dict(w0, dt_us=q, query_class=label), f"two overlapping burns: state {label} differs from Hill's equations with both thrusts")
        ctx.count("overlap-burns:" + label)


LEAP_MJD = [53736, 54832, 56109, 57204, 57754]  # UTC days on which a new TAI-UTC enters into force


def case_leap(ctx, job, idx, rng, st):
    """Across a leap second the relative state is still the Hill solution after the time elapsed between the two INSTANTS, and the
    state returned is dated at the instant asked for."""
    from beyond.dates import Date, timedelta

    sma = gen_sma(rng)
    n = math.sqrt(st["mu"] / sma ** 3)
    rac, _vk = gen_rel_state(rng, n)
    label = ("UTC", "TAI", "UTC", "TT")[idx % 4]
    leap = LEAP_MJD[idx % len(LEAP_MJD)]
    before = round(rng.uniform(30.0, 1500.0), 6)
    t0 = (Date(leap, scale="UTC").change_scale("TAI") - timedelta(seconds=before))
    epoch = t0.change_scale(label)
    if abs((epoch - t0).total_seconds()) > 1.5e-6:
        ctx.count("leap:not-judged-relabelling-moved-the-instant (C03's subject)")
        return
    after = round(rng.uniform(10.0, 2000.0), 6)
    elapsed = before + after
    target = (t0 + timedelta(seconds=elapsed)).change_scale(label)  # built on the uniform scale, then labelled
    backward = idx % 3 == 2
    ctx.case({"job": "leap-second", "sma": sma, "state_rac": rac, "label": label, "before_s": before, "elapsed_s": elapsed, "backward": backward})
    ctx.count("leap:label:" + label)
    for ori in ("QSW", "TNW"):
        state = to_axes(rac, ori)
        if backward:
            orb, _ = make_orbit(st, sma, ori, state, target)
            ask, dt = epoch, -elapsed
        else:
            orb, _ = make_orbit(st, sma, ori, state, epoch)
            ask, dt = target, elapsed
        w = dict(sma=sma, n=n, orientation=ori, state0=state, epoch=str(orb.date), asked=str(ask), elapsed_s=dt, label=label,
                 how="real IERS tables; a leap second lies between the epoch and the date asked for")
        try:
            res = orb.propagate(ask)
        except Exception as exc:
            ctx.violation("C16/propagate-raises-free", dict(w, exc=repr(exc)), f"propagate raised {exc!r}")
            continue
        got = probe.arr(res)
        ref = hill.trajectory(state, n, [], dt, ori)
        scale = scale_of(state, n, dt)
        ctx.count("leap:judged")
        cmp_state(ctx, "leap:free", got, ref, n, scale, REL_IVP, "C16/free-evolution-across-a-leap-second", w,
                  "free CW propagation across a leap second differs from the Hill solution over the elapsed time")
        off = (res.date - ask).total_seconds()
        ctx.expect(abs(off) <= 1.5e-6, "C16/result-not-dated-at-the-instant-asked-for", dict(w, result_date=str(res.date), offset_s=off),
                   f"the state returned for {ask} is dated {res.date} ({off:+.6f} s)")


def run_case(ctx, job, idx, rng, st):
    if job["name"] == "leap-second":
        return case_leap(ctx, job, idx, rng, st)
    {"free": case_free, "mans": case_mans, "nonlinear": case_nonlinear, "helper": case_helper, "overlap": case_overlap}[job["name"]](ctx, job, idx, rng, st)
