"""Mutant self-test driver.

    python -m vmon.selftest.driver [C01 C03 ...] [--procs N] [--keep-going]

For each mutant (file, exact old text, new text) of vmon/selftest/mutants.py: copy /repo to a scratch
directory outside /repo and /verif, apply the mutant, check that the mutated tree still imports, run the
property's quick command with VERIF_REPO pointing at the copy (evidence goes to .scratch-evidence/),
expect exit 1 with a VIOLATION line, and delete the copy.  Survivors are listed; the result table is
written to selftest_results.json (informational, not evidence of a property).
"""

import json
import os
import shutil
import subprocess
import sys
import tempfile
import time
from pathlib import Path

from .mutants import MUTANTS

VERIF = Path(__file__).resolve().parent.parent.parent


def run_one(prop, m, procs):
    scratch = Path(tempfile.mkdtemp(prefix=f"vmon-mut-{prop}-", dir="/tmp"))
    try:
        subprocess.run(["rsync", "-a", "--exclude", ".git", "--exclude", "htmlcov", "--exclude", "doc", "--exclude", "__pycache__", "/repo/", str(scratch) + "/"], check=True)
        f = scratch / m["file"]
        s = f.read_text()
        if s.count(m["old"]) != 1:
            return {"status": "not-applicable", "reason": f"old text found {s.count(m['old'])}x"}
        f.write_text(s.replace(m["old"], m["new"]))
        imp = subprocess.run(["/venv/bin/python", "-c", "import beyond.orbits, beyond.propagators.keplernum, beyond.io.ccsds, beyond.frames.stations, beyond.utils.cwhelper"],
                             env=dict(os.environ, PYTHONPATH=str(scratch)), capture_output=True, text=True, cwd="/tmp")
        if imp.returncode != 0:
            return {"status": "does-not-import", "reason": imp.stderr[-300:]}
        env = dict(os.environ, VERIF_REPO=str(scratch))
        cmd = ["/venv/bin/python", "-m", "vmon.run", prop, "--tier", "quick", "--procs", str(procs)]
        if m.get("jobs"):
            cmd += ["--jobs", m["jobs"]]
        t0 = time.time()
        p = subprocess.run(cmd, env=env, cwd=str(VERIF), capture_output=True, text=True, timeout=3600)
        keys = [l.strip() for l in p.stdout.splitlines() if l.strip().startswith("key=")]
        caught = p.returncode == 1 and "VIOLATION property=" + prop in p.stdout
        return {"status": "caught" if caught else ("inconclusive" if p.returncode == 2 else "SURVIVED"), "rc": p.returncode,
                "keys": [k.split(" ")[0] for k in keys][:8], "wall_s": round(time.time() - t0, 1), "tail": p.stdout[-300:] if not caught else ""}
    finally:
        shutil.rmtree(scratch, ignore_errors=True)


def main():
    args = [a for a in sys.argv[1:] if not a.startswith("--")]
    procs = 8
    if "--procs" in sys.argv:
        procs = int(sys.argv[sys.argv.index("--procs") + 1])
        args = [a for a in args if a != str(procs)]
    props = [a.upper() for a in args] or sorted(MUTANTS)
    out_path = VERIF / "selftest_results.json"
    results = json.loads(out_path.read_text()) if out_path.exists() else {}
    bad = 0
    for prop in props:
        for m in MUTANTS.get(prop, []):
            r = run_one(prop, m, procs)
            results.setdefault(prop, {})[m["name"]] = dict(r, file=m["file"])
            print(f"{prop} {m['name']:45s} {r['status']:12s} {r.get('keys', r.get('reason', ''))}", flush=True)
            if r["status"] != "caught":
                bad += 1
            out_path.write_text(json.dumps(results, indent=1))
    return 1 if bad else 0


if __name__ == "__main__":
    sys.exit(main())
