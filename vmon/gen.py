"""Seeded generators (random.Random only, no global RNG)."""

import math

from .oracles import elements as el

MU = {
    # name: (mu = mass*G as the library defines it, equatorial radius) -- filled lazily from beyond.constants
}


def bodies():
    from beyond import constants as c

    return {
        "Earth": c.Earth,
        "Moon": c.Moon,
        "Sun": c.Sun,
        "Mars": c.Mars,
    }


def loguniform(rng, lo, hi):
    return math.exp(rng.uniform(math.log(lo), math.log(hi)))


ECC_CLASSES = {
    "near-circular": (1e-4, 1e-2),
    "moderate": (1e-2, 0.9),
    "high": (0.9, 0.99),
    "hyp-low": (1.001, 1.6),
    "hyp-mid": (1.6, 3.6),
    "hyp-high": (3.6, 20.0),
}
INC_CLASSES = {
    "prograde": (0.05, math.pi / 2 - 0.05),
    "retrograde": (math.pi / 2 + 0.05, math.pi - 0.05),
    "near-polar": (math.pi / 2 - 0.05, math.pi / 2 + 0.05),
    "near-equatorial": (0.01, 0.05),
    "near-anti-equatorial": (math.pi - 0.05, math.pi - 0.01),
}


def kepler_elements(rng, ecc_class=None, inc_class=None, a_range=None, anomaly_class=None):
    """Return dict(a,e,i,raan,argp,M,nu, classes...) ; M may be outside [0,2pi) on purpose."""
    ecc_class = ecc_class or rng.choice(list(ECC_CLASSES))
    inc_class = inc_class or rng.choice(list(INC_CLASSES))
    lo, hi = ECC_CLASSES[ecc_class]
    e = loguniform(rng, lo, hi) if ecc_class == "near-circular" else rng.uniform(lo, hi)
    i = rng.uniform(*INC_CLASSES[inc_class])
    if inc_class == "near-polar":
        # the special value itself and its immediate neighbourhood (cos i = 0 exactly, or within rounding of it):
        # a uniform draw never lands there
        u = rng.random()
        if u < 0.25:
            i = math.pi / 2
        elif u < 0.45:
            i = math.pi / 2 + rng.choice([-1, 1]) * 10 ** rng.uniform(-13, -5)
    raan = rng.uniform(0, 2 * math.pi)
    argp = rng.uniform(0, 2 * math.pi)
    return dict(e=e, i=i, raan=raan, argp=argp, ecc_class=ecc_class, inc_class=inc_class)


def anomaly(rng, e, cls=None):
    """Mean anomaly by class."""
    if e < 1:
        cls = cls or rng.choice(["neg", "pos", "gt-pi", "tiny"])
        if cls == "neg":
            return rng.uniform(-math.pi, 0), cls
        if cls == "pos":
            return rng.uniform(0, math.pi), cls
        if cls == "gt-pi":
            return rng.uniform(math.pi, 2 * math.pi), cls
        return rng.uniform(-1e-3, 1e-3), cls
    cls = cls or rng.choice(["neg", "pos", "large", "large-neg", "tiny", "huge", "huge-neg"])
    if cls in ("huge", "huge-neg"):
        # |H| large: hyperbolic anomaly 5..10 (weeks after pericentre of a planet-sized hyperbola)
        H = rng.uniform(5.0, 10.0) * (1 if cls == "huge" else -1)
        return e * math.sinh(H) - H, cls
    if cls == "neg":
        return rng.uniform(-math.pi, 0), cls
    if cls == "pos":
        return rng.uniform(0, math.pi), cls
    if cls == "large":
        return loguniform(rng, math.pi, 60.0), cls
    if cls == "large-neg":
        return -loguniform(rng, math.pi, 60.0), cls
    return rng.uniform(-1e-3, 1e-3), cls


def orbit_case(rng, body_name=None, ecc_class=None, inc_class=None, rp_range=None, anomaly_class=None):
    """A cartesian state (r, v) built by the oracle's own kep2cart, with its description."""
    b = bodies()
    body_name = body_name or rng.choice(list(b))
    body = b[body_name]
    mu = float(body.mu)
    k = kepler_elements(rng, ecc_class, inc_class)
    e = k["e"]
    # pericentre radius from just above the surface to very far
    rp_lo, rp_hi = rp_range or (1.02 * body.equatorial_radius, 150 * body.equatorial_radius)
    rp = loguniform(rng, rp_lo, rp_hi)
    a = rp / (1 - e)  # negative for hyperbola
    M, acls = anomaly(rng, e, anomaly_class)
    nu = el.nu_from_M(e, M)
    r, v = el.kep2cart(a, e, k["i"], k["raan"], k["argp"], nu, mu)
    k.update(a=a, M=M, nu=nu, body=body_name, mu=mu, anomaly_class=acls, r=[float(x) for x in r], v=[float(x) for x in v])
    return k
