#!/usr/bin/env python3
"""Regenerate MANIFEST.json from the table below (single source of truth)."""
import json, os, sys
from pathlib import Path

V = Path(__file__).resolve().parent.parent
PY = "/venv/bin/python"
props = [json.loads(l) for l in open(V / "properties.jsonl")]
sys.path.insert(0, str(V))
from tools.manifest_table import CHECKS, NOT_APPLICABLE  # noqa

checks = []
for p in props:
    pid = p["id"]
    if pid not in CHECKS:
        continue
    c = CHECKS[pid]
    checks.append({
        "property_id": pid,
        "quick_cmd": f"{PY} -m vmon.run {pid} --tier quick",
        "thorough_cmd": f"{PY} -m vmon.run {pid} --tier thorough",
        "evidence_file": f"evidence/{pid}.json",
        "replay_cmd_template": f"{PY} -m vmon.run {pid} --replay {{path}}",
        "engine": "vmon",
        "level_claimed": {"category": "exploration", "text": c["text"], "design_ref": f"DESIGN.md section 5, {pid}"},
        "level_note": c["note"],
        "technique": c["technique"],
    })
na = [{"property_id": p["id"], "reason": NOT_APPLICABLE.get(p["id"], "check not built yet (work in progress); not claimed")}
      for p in props if p["id"] not in CHECKS]
m = {
    "version": 1,
    "setup_cmd": f"{PY} -c \"import sys; sys.path.insert(0,'/repo'); import beyond, numpy, sgp4, jplephem, lxml; import vmon.run\"",
    "hooks": {
        "guard": "BEYOND_VERIF",
        "enable": "no source hooks: every monitor is attached from the harness by wrapping attributes of the imported library (vmon/probe.py); the guard variable is reserved and unused",
        "baseline_off_cmd": "cd /repo && /venv/bin/python -m pytest -ra -q -p no:cacheprovider --timeout=900 --continue-on-collection-errors",
        "source_commits": [],
        "add_only": True,
    },
    "engines": [{
        "name": "vmon", "path": "vmon/", "serves_properties": [c["property_id"] for c in checks],
        "kind_free_text": "runtime monitoring: generated hostile workloads run against the real library in fresh subprocesses; reference-model monitors, invariant hooks (attribute wrappers, failpoints), recorded-stream checkers, differential-history monitors; three-valued verdict"}],
    "checks": checks,
    "notes": "All checks: exit 0 held on everything observed, exit 1 + VIOLATION line, exit 2 + INCONCLUSIVE line (monitor never reached / watchdog). VERIF_SEED, VERIF_TIER and VERIF_REPO (tree under test, default /repo) are honoured. Known findings: known_findings.json.",
    "not_applicable": na,
}
(V / "MANIFEST.json").write_text(json.dumps(m, indent=1, ensure_ascii=False) + "\n")
print("checks:", [c["property_id"] for c in checks], "not claimed:", [n["property_id"] for n in na])
