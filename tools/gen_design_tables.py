#!/usr/bin/env python3
"""Regenerate the generated tables of DESIGN.md (between the BEGIN/END GENERATED markers) from
known_findings.json, seeded/*/meta.json and selftest_results.json."""
import glob, json, os, re
V = "/verif"
kf = json.load(open(f"{V}/known_findings.json"))["findings"]
out = []
out.append("## A.3 Genuine defects repaired in /repo (one `fix:` commit each; status `fixed` in known_findings.json, which suppresses nothing)\n")
out.append("| property | key(s) of the monitor that found it | commit | what failed |\n|---|---|---|---|")
seen = {}
for f in kf:
    if f["status"] != "fixed":
        continue
    seen.setdefault((f["property"], f["commit"]), []).append(f)
for (prop, commit), fs in sorted(seen.items()):
    keys = "<br>".join("`" + f["key"] + "`" for f in fs)
    what = fs[0]["record"].split(commit, 1)[-1].strip()
    out.append(f"| {prop} | {keys} | `{commit}` | {what} |")
out.append("\n## A.4 Genuine defects recorded, not repaired (status `open`: printed as KNOWN-FINDING, exit code unaffected)\n")
out.append("| property | key | what fails | classifier (what is recognised as this finding) | why no small safe repair |\n|---|---|---|---|---|")
for f in kf:
    if f["status"] == "open":
        out.append(f"| {f['property']} | `{f['key']}` | {f['what']} Witness: {f.get('witness','')} | {f.get('classifier','')} | {f.get('why_not_fixed','')} |")
out.append("\n## A.5 Seeded changes (from sub-agents that saw only the property text) and the checks that catch them\n")
out.append("| seed | property | what it breaks / what it needs to manifest | caught by (quick tier, keys) |\n|---|---|---|---|")
for m in sorted(glob.glob(f"{V}/seeded/*/meta.json")):
    d = json.load(open(m))
    keys = []
    for p, c in d["check_result"].items():
        keys += [k.replace("key=", "") for k in c["keys"][:4]]
    out.append(f"| `{d['id']}` | {d['property']} | {d['breaks']}. *Needs:* {d['needs_to_manifest']} | {'caught' if d['caught'] else '**MISSED**'}: {', '.join('`'+k+'`' for k in keys)} |")
if os.path.exists(f"{V}/selftest_results.json"):
    st = json.load(open(f"{V}/selftest_results.json"))
    out.append("\n## A.6 Own deliberate breaks (vmon/selftest/mutants.py, run by `python -m vmon.selftest.driver`)\n")
    out.append("| property | mutant | result | keys |\n|---|---|---|---|")
    for prop in sorted(st):
        for name, r in st[prop].items():
            out.append(f"| {prop} | {name} ({r['file']}) | {r['status']} | {', '.join('`'+k.replace('key=','')+'`' for k in r.get('keys', [])[:4])} |")
text = "\n".join(out) + "\n"
p = f"{V}/DESIGN.md"
s = open(p).read()
B, E = "<!-- BEGIN GENERATED -->", "<!-- END GENERATED -->"
if B in s:
    s = s[: s.index(B) + len(B)] + "\n" + text + s[s.index(E):]
else:
    s += f"\n{B}\n{text}{E}\n"
open(p, "w").write(s)
print("tables regenerated:", len([f for f in kf if f['status']=='fixed']), "fixed,", len([f for f in kf if f['status']=='open']), "open,", len(glob.glob(f'{V}/seeded/*/meta.json')), "seeds")
