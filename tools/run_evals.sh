#!/bin/sh
# one process per worktree, mutants sequentially inside it
w=$1
P=$(echo $w | tr c C)
for k in 1 2; do
  timeout 3000 python3 /verif/tools/seed_eval.py /tmp/seed${ROUND:-2}-$w $k $P > /tmp/seed${ROUND:-2}-$w/eval_$k.log 2>&1
done
