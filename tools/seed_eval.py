#!/usr/bin/env python3
"""Evaluate one seeded mutant independently of its author.

    seed_eval.py WORKTREE K PROP[,PROP2...] [--skip-suite]

1. restore WORKTREE, run demo_K.py (must exit 0); apply mutant_K.diff, run demo_K.py (must exit != 0)
2. run the repository's pinned test-suite inside WORKTREE with the mutant applied; every BASELINE stable test must pass
3. run the quick check(s) of PROP against the mutated worktree (VERIF_REPO=WORKTREE): expect exit 1 + VIOLATION
4. restore WORKTREE.  Prints a JSON summary (also stored as WORKTREE/eval_K.json).
"""
import json, os, subprocess, sys, tempfile, time, xml.etree.ElementTree as ET

wt, k, props = sys.argv[1], sys.argv[2], sys.argv[3].split(",")
skip_suite = "--skip-suite" in sys.argv
env = dict(os.environ, PYTHONPATH=wt)
res = {"worktree": wt, "mutant": k}


def sh(cmd, **kw):
    return subprocess.run(cmd, shell=True, cwd=wt, env=env, capture_output=True, text=True, **kw)


sh("git checkout -- beyond")
head = subprocess.run("git -C /repo rev-parse HEAD", shell=True, capture_output=True, text=True).stdout.strip()
sh(f"git checkout -q --detach {head}")  # evaluate against the current tree (fixes included)
res["repo_head"] = head
r = sh(f"/venv/bin/python demo_{k}.py", timeout=1800)
res["demo_clean_rc"] = r.returncode
a = sh(f"git apply mutant_{k}.diff")
res["apply_rc"] = a.returncode
res["files"] = sh("git diff --stat | tail -1").stdout.strip()
r = sh(f"/venv/bin/python demo_{k}.py", timeout=1800)
res["demo_mutant_rc"] = r.returncode
res["demo_mutant_tail"] = (r.stdout + r.stderr)[-600:]
if not skip_suite:
    base = json.load(open("/root/.vp/BASELINE.json"))
    out = tempfile.mktemp(suffix=".xml")
    cmd = base["cmd"].replace("cd /repo", f"cd {wt}").replace("<file>", out)
    subprocess.run(cmd, shell=True, env=env, stdout=subprocess.DEVNULL, stderr=subprocess.DEVNULL)
    passed = set()
    for tc in ET.parse(out).getroot().iter("testcase"):
        if not any(c.tag in ("failure", "error", "skipped") for c in tc):
            passed.add(f"{tc.get('classname')}::{tc.get('name')}")
    os.unlink(out)
    missing = [t for t in base["stable_pass"] if t not in passed]
    res["suite_stable_pass"] = len(base["stable_pass"]) - len(missing)
    res["suite_missing"] = missing[:10]
res["checks"] = {}
for prop in props:
    t0 = time.time()
    p = subprocess.run(["/venv/bin/python", "-m", "vmon.run", prop, "--tier", "quick", "--procs", "8"], cwd="/verif",
                       env=dict(os.environ, VERIF_REPO=wt), capture_output=True, text=True, timeout=7200)
    keys = [l.strip().split(" ")[0] for l in p.stdout.splitlines() if l.strip().startswith("key=")]
    res["checks"][prop] = {"rc": p.returncode, "keys": keys[:10], "wall_s": round(time.time() - t0, 1),
                           "tail": p.stdout[-400:] if p.returncode != 1 else ""}
sh("git checkout -- beyond")
res["caught"] = any(c["rc"] == 1 for c in res["checks"].values())
res["valid"] = res["demo_clean_rc"] == 0 and res["demo_mutant_rc"] != 0 and res["apply_rc"] == 0 and (skip_suite or not res.get("suite_missing"))
json.dump(res, open(os.path.join(wt, f"eval_{k}.json"), "w"), indent=1)
print(json.dumps(res, indent=1))
