#!/usr/bin/env python3
"""kf.py add-fixed PROP KEY COMMIT "what failed" "witness"   |   kf.py add-open PROP KEY  (reads JSON fields from stdin)"""
import json, sys
p = "/verif/known_findings.json"
k = json.load(open(p))
cmd = sys.argv[1]
if cmd == "add-fixed":
    prop, key, commit, what, witness = sys.argv[2:7]
    k["findings"].append({"property": prop, "key": key, "status": "fixed", "commit": commit,
                          "record": f"fixed: property={prop} {commit} {what}", "witness": witness})
elif cmd == "add-open":
    prop, key = sys.argv[2:4]
    d = json.load(sys.stdin)
    d.update({"property": prop, "key": key, "status": "open"})
    k["findings"].append(d)
json.dump(k, open(p, "w"), indent=1, ensure_ascii=False)
print(len(k["findings"]), "findings")
