#!/usr/bin/env python3
"""Run the repository's pinned test suite (hooks are never in the source, so guard off == as is)
and compare with /root/.vp/BASELINE.json: every stable_pass test must still pass."""
import json, subprocess, sys, tempfile, os, xml.etree.ElementTree as ET

base = json.load(open("/root/.vp/BASELINE.json"))
out = tempfile.mktemp(suffix=".xml")
env = dict(os.environ)
env.pop("BEYOND_VERIF", None)
cmd = base["cmd"].replace("<file>", out)
subprocess.run(cmd, shell=True, env=env, stdout=subprocess.DEVNULL, stderr=subprocess.DEVNULL)
passed = set()
for tc in ET.parse(out).getroot().iter("testcase"):
    if not any(c.tag in ("failure", "error", "skipped") for c in tc):
        passed.add(f"{tc.get('classname')}::{tc.get('name')}")
os.unlink(out)
missing = [t for t in base["stable_pass"] if t not in passed]
print(f"baseline: {len(base['stable_pass']) - len(missing)}/{len(base['stable_pass'])} stable tests pass; newly passing: {sorted(passed - set(base['stable_pass']))}")
for t in missing:
    print("MISSING", t)
sys.exit(1 if missing else 0)
