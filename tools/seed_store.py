#!/usr/bin/env python3
"""seed_store.py WORKTREE K SEED_ID PROP "breaks" "needs"  -- copy a confirmed seeded mutant into /verif/seeded/<id>/"""
import json, os, shutil, sys
wt, k, sid, prop, breaks, needs = sys.argv[1:7]
d = f"/verif/seeded/{sid}"
os.makedirs(d, exist_ok=True)
shutil.copy(f"{wt}/mutant_{k}.diff", f"{d}/patch.diff")
shutil.copy(f"{wt}/demo_{k}.py", f"{d}/demo.py")
# make the demo location independent
s = open(f"{d}/demo.py").read().replace(wt, "/repo")
open(f"{d}/demo.py", "w").write(s)
ev = json.load(open(f"{wt}/eval_{k}.json"))
meta = {
    "id": sid, "property": prop, "breaks": breaks, "needs_to_manifest": needs,
    "author": "independent sub-agent given only the property text and a scratch worktree",
    "confirmed_by_me": {
        "demo_exit_on_clean_tree": ev["demo_clean_rc"], "demo_exit_with_patch": ev["demo_mutant_rc"],
        "baseline_stable_tests_passing_with_patch": ev.get("suite_stable_pass"), "baseline_missing": ev.get("suite_missing"),
        "how": "tools/seed_eval.py: demo on clean worktree, git apply, demo again, full pinned test-suite inside the worktree (PYTHONPATH=worktree), quick check with VERIF_REPO=worktree, restore",
    },
    "check_result": ev["checks"], "caught": ev["caught"],
    "first_evaluation": ev.get("first_evaluation"),
    "replay": "git -C /repo apply /verif/seeded/%s/patch.diff && /venv/bin/python -m vmon.run %s --tier quick ; git -C /repo checkout -- ." % (sid, prop),
}
json.dump(meta, open(f"{d}/meta.json", "w"), indent=1)
print("stored", d, "caught=", ev["caught"])
