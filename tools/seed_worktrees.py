#!/usr/bin/env python3
"""seed_worktrees.py ROUND PROP[,PROP...]  -- scratch worktrees /tmp/seed<ROUND>-cNN of /repo HEAD, each with a PROPERTY.txt that
holds only the property text, the mechanisms already seeded and the defects already known (so that a seeding agent, who sees
nothing of /verif, does not repeat them)."""
import json, os, subprocess, sys
rnd, props = sys.argv[1], sys.argv[2].split(",")
P = {json.loads(l)["id"]: json.loads(l) for l in open("/verif/properties.jsonl")}
kf = json.load(open("/verif/known_findings.json"))["findings"]
for p in props:
    wt = f"/tmp/seed{rnd}-{p.lower()}"
    subprocess.run(f"git -C /repo worktree add --detach {wt} HEAD", shell=True, check=True, capture_output=True)
    seeded = []
    for d in sorted(os.listdir("/verif/seeded")):
        m = f"/verif/seeded/{d}/meta.json"
        if os.path.exists(m):
            m = json.load(open(m))
            if m["property"] == p:
                seeded.append(f"- {m['breaks']} (needs: {m['needs_to_manifest']})")
    known = [f"- {f.get('summary') or f.get('what') or f.get('record') or f['key']}" for f in kf if f["property"] == p and f["status"] == "open"]
    q = P[p]
    txt = f"PROPERTY {p}: {q['title']}\n\nSTATEMENT\n{q['statement']}\n\nQUANTIFIER\n{q['quantifier']['text']}\n\n" \
          f"MECHANISMS ALREADY SEEDED BY OTHERS (do not repeat these, nor close variants)\n" + "\n".join(seeded) + \
          "\n\nKNOWN DEFECTS OF THE UNMODIFIED TREE (do not rely on them, do not re-introduce or revert them)\n" + ("\n".join(known) or "- none recorded") + "\n"
    open(f"{wt}/PROPERTY.txt", "w").write(txt)
    print(wt, len(seeded), "seeded,", len(known), "known")
