#!/bin/sh
# usage: reeval5.sh cNN "k1 k2"
w=$1; P=$(echo $w | tr c C)
for k in $2; do
  cp /tmp/seed${ROUND:-5}-$w/eval_$k.json /tmp/seed${ROUND:-5}-$w/eval_$k.first.json
  timeout 3000 python3 /verif/tools/seed_eval.py /tmp/seed${ROUND:-5}-$w $k $P --skip-suite > /tmp/seed${ROUND:-5}-$w/reeval_$k.log 2>&1
  python3 - /tmp/seed${ROUND:-5}-$w $k <<'PY'
import json,sys
wt,k=sys.argv[1:3]
first=json.load(open(f"{wt}/eval_{k}.first.json")); new=json.load(open(f"{wt}/eval_{k}.json"))
new["suite_stable_pass"]=first.get("suite_stable_pass"); new["suite_missing"]=first.get("suite_missing")
new["valid"]= new["demo_clean_rc"]==0 and new["demo_mutant_rc"]!=0 and new["apply_rc"]==0 and not new["suite_missing"]
new["first_evaluation"]={"caught":first["caught"],"checks":first["checks"]}
json.dump(new,open(f"{wt}/eval_{k}.json","w"),indent=1)
print(wt,k,"valid" if new["valid"] else "INVALID","caught" if new["caught"] else "MISSED",[c["keys"][:2] for c in new["checks"].values()])
PY
done
