#!/bin/bash
# run_all.sh [tier] [seed]  -- run every claimed check, print one line each
tier=${1:-quick}; seed=${2:-0}
cd "$(dirname "$0")/.."
for p in $(python3 -c "import json; print(' '.join(c['property_id'] for c in json.load(open('MANIFEST.json'))['checks']))"); do
  t0=$(date +%s)
  out=$(VERIF_SEED=$seed timeout 7200 /venv/bin/python -m vmon.run $p --tier $tier 2>&1)
  rc=$?
  t1=$(date +%s)
  echo "$p rc=$rc wall=$((t1-t0))s $(echo "$out" | grep -c '^KNOWN-FINDING') known, $(echo "$out" | grep -c '^VIOLATION') violations | $(echo "$out" | grep '^\[' | cut -c1-140)"
  echo "$out" | grep '^VIOLATION\|^  key=\|^INCONCLUSIVE' | cut -c1-250
done
