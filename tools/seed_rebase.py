#!/usr/bin/env python3
"""seed_rebase.py SEED_ID...  -- a stored patch no longer applies to /repo HEAD (a later repair touched its context): re-base it
with `patch -p1 -F3` in a scratch worktree, confirm it again (demo 0 on the clean tree / != 0 with the patch, pinned test-suite,
quick check) with tools/seed_eval.py, and store the re-based patch (the original is kept as patch.orig.diff)."""
import json, os, shutil, subprocess, sys

for sid in sys.argv[1:]:
    d = f"/verif/seeded/{sid}"
    meta = json.load(open(f"{d}/meta.json"))
    wt = f"/tmp/seedrebase-{os.getpid()}"
    subprocess.run(f"git -C /repo worktree add --detach {wt} HEAD", shell=True, check=True, capture_output=True)
    try:
        manual = f"/tmp/rebased-{sid}.diff"  # a hand re-based patch takes precedence (hunks whose context was itself repaired)
        src = manual if os.path.exists(manual) else f"{d}/patch.diff"
        r = subprocess.run(f"patch -p1 -F3 < {src}", shell=True, cwd=wt, capture_output=True, text=True)
        if r.returncode != 0:
            print(sid, "CANNOT BE RE-BASED:", r.stdout[-300:])
            continue
        subprocess.run("find . -name '*.orig' -delete; find . -name '*.rej' -delete", shell=True, cwd=wt)
        diff = subprocess.run("git diff", shell=True, cwd=wt, capture_output=True, text=True).stdout
        subprocess.run("git checkout -- .", shell=True, cwd=wt)
        open(f"{wt}/mutant_1.diff", "w").write(diff)
        shutil.copy(f"{d}/demo.py", f"{wt}/demo_1.py")
        s = open(f"{wt}/demo_1.py").read().replace("/repo", wt)
        open(f"{wt}/demo_1.py", "w").write(s)
        subprocess.run(["python3", "/verif/tools/seed_eval.py", wt, "1", meta["property"]], capture_output=True, text=True)
        ev = json.load(open(f"{wt}/eval_1.json"))
        print(sid, "valid" if ev["valid"] else "INVALID", "caught" if ev["caught"] else "MISSED", ev["checks"][meta["property"]]["keys"][:3], ev.get("suite_missing"))
        if ev["valid"] and ev["caught"]:
            if not os.path.exists(f"{d}/patch.orig.diff"):
                shutil.copy(f"{d}/patch.diff", f"{d}/patch.orig.diff")
            open(f"{d}/patch.diff", "w").write(diff)
            meta["rebased_on"] = ev["repo_head"]
            meta["check_result"] = ev["checks"]
            meta["caught"] = True
            json.dump(meta, open(f"{d}/meta.json", "w"), indent=1)
    finally:
        subprocess.run(f"git -C /repo worktree remove --force {wt}", shell=True, capture_output=True)
