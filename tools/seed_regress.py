#!/usr/bin/env python3
"""Re-run every stored seeded change against the CURRENT checks and the CURRENT /repo HEAD.

    seed_regress.py [--workers 4] [--only C05,C08-...] [--tier quick]

For each /verif/seeded/<id>/: in a scratch worktree of /repo (under /tmp, removed at the end) apply patch.diff, run the
quick check of the seed's property with VERIF_REPO=<worktree>, record exit code and violation keys, restore the worktree.
/repo itself is never touched.  Result: /verif/seeded/REGRESSION.json and a table on stdout; exit 1 if a seed no longer
applies or is no longer caught.
"""
import json, os, subprocess, sys, time
from concurrent.futures import ThreadPoolExecutor

SEEDED = "/verif/seeded"
args = sys.argv[1:]
workers = int(args[args.index("--workers") + 1]) if "--workers" in args else 4
only = args[args.index("--only") + 1].split(",") if "--only" in args else None
tier = args[args.index("--tier") + 1] if "--tier" in args else "quick"

seeds = sorted(d for d in os.listdir(SEEDED) if os.path.isfile(f"{SEEDED}/{d}/patch.diff"))
if only:
    seeds = [s for s in seeds if any(s.startswith(o) for o in only)]
head = subprocess.run("git -C /repo rev-parse HEAD", shell=True, capture_output=True, text=True).stdout.strip()


def sh(cmd, cwd=None, env=None, timeout=None):
    return subprocess.run(cmd, shell=True, cwd=cwd, env=env, capture_output=True, text=True, timeout=timeout)


def worker(k):
    wt = f"/tmp/seedreg-{os.getpid()}-{k}"
    sh(f"git -C /repo worktree add --detach {wt} {head}")
    out = []
    try:
        while True:
            try:
                sid = queue.pop()
            except IndexError:
                break
            meta = json.load(open(f"{SEEDED}/{sid}/meta.json"))
            prop = meta["property"]
            sh("git checkout -- . && git clean -fdq beyond", cwd=wt)
            a = sh(f"git apply {SEEDED}/{sid}/patch.diff", cwd=wt)
            rec = {"id": sid, "property": prop, "applies": a.returncode == 0}
            if a.returncode == 0:
                t0 = time.time()
                p = subprocess.run(["/venv/bin/python", "-m", "vmon.run", prop, "--tier", tier, "--procs", "4"], cwd="/verif",
                                   env=dict(os.environ, VERIF_REPO=wt), capture_output=True, text=True, timeout=7200)
                keys = [l.strip().split(" ")[0][4:] for l in p.stdout.splitlines() if l.strip().startswith("key=")]
                rec.update(rc=p.returncode, caught=p.returncode == 1, keys=keys[:8], wall_s=round(time.time() - t0, 1))
            else:
                rec.update(caught=False, error=a.stderr[-300:])
            sh("git checkout -- .", cwd=wt)
            print(f"{sid:70s} {'caught' if rec['caught'] else 'MISSED' if rec['applies'] else 'NO-APPLY'} {rec.get('keys', [])[:2]}", flush=True)
            out.append(rec)
    finally:
        sh(f"git -C /repo worktree remove --force {wt}")
    return out


queue = list(reversed(seeds))
with ThreadPoolExecutor(workers) as ex:
    res = [r for part in ex.map(worker, range(workers)) for r in part]
sh("git -C /repo worktree prune")
res.sort(key=lambda r: r["id"])
prev = {}
if only and os.path.exists(f"{SEEDED}/REGRESSION.json"):
    prev = {r["id"]: r for r in json.load(open(f"{SEEDED}/REGRESSION.json"))["seeds"]}
prev.update({r["id"]: r for r in res})
allr = [prev[k] for k in sorted(prev)]
json.dump({"repo_head": head, "tier": tier, "n": len(allr), "caught": sum(r["caught"] for r in allr), "seeds": allr},
          open(f"{SEEDED}/REGRESSION.json", "w"), indent=1)
bad = [r["id"] for r in res if not r["caught"]]
print(f"{len(res)} seeds run, {len(res) - len(bad)} caught; not caught: {bad}")
sys.exit(1 if bad else 0)
