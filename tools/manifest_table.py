CHECKS = {
    "C01": {
        "text": "Every generated orbit (6 eccentricity classes x 5 inclination classes x anomaly classes incl. |H| up to 10, 4 central bodies) is pushed through all 10x10 ordered form pairs of the real code, in place and by copy; each form's six numbers are compared with an independent vector-definition model, the round trip with the truth cartesian state, the walked conversion edges with the unique tree path, and the Infos quantities with their defining relations. Held-on-observed for ~3e3 (quick) / ~1e5 (thorough) orbits; sampling of a real-valued space, not a proof.",
        "note": "trusted: vmon/oracles/elements.py (textbook definitions), numpy; body constants read as data; tle/mean_circular treated as undefined for hyperbolas",
        "technique": "reference-model monitor + invariant hooks on Form._x_to_y edges",
    },
}
NOT_APPLICABLE = {}
