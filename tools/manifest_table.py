CHECKS = {
    "C01": {
        "text": "Every generated orbit (6 eccentricity classes x 5 inclination classes x anomaly classes incl. |H| up to 10, 4 central bodies) is pushed through all 10x10 ordered form pairs of the real code, in place and by copy; each form's six numbers are compared with an independent vector-definition model, the round trip with the truth cartesian state, the walked conversion edges with the unique tree path, and the Infos quantities with their defining relations. Held-on-observed for ~3e3 (quick) / ~1e5 (thorough) orbits; sampling of a real-valued space, not a proof.",
        "note": "trusted: vmon/oracles/elements.py (textbook definitions), numpy; body constants read as data; tle/mean_circular treated as undefined for hyperbolas",
        "technique": "reference-model monitor + invariant hooks on Form._x_to_y edges",
    },
    "C03": {
        "text": "Every day of the IERS tables is read through Date(...).eop and compared with an independent column parser; for generated instants (uniform 1973-2017, biased to UTC midnights, leap windows excluded) all 36 ordered scale pairs are converted by the real code and the offset, same-instant and round-trip clauses checked against the tables under real, zero and constant EOP; arithmetic laws, ordering/equality/hash consistency across labels, DateRange length/iteration/membership against an integer-microsecond model for both step signs, and the missing-data policies are observed. Held-on-observed over ~5e4 (quick) / ~5e5 (thorough) cases; two open known findings are reported as KNOWN-FINDING.",
        "note": "trusted: vmon/oracles/timescales.py (IERS readme columns, fixed offsets, Almanac TDB-TT), python datetime microsecond arithmetic; leap seconds excluded by 2-minute windows as the quantifier says",
        "technique": "reference-model monitor (own IERS table parser, integer-microsecond range model) over generated instants",
    },
    "C04": {
        "text": "Differential (metamorphic) monitor: for generated instants and orbits, 20 date-consuming public operations (SGP4, native SGP4, Kepler, J2, numerical, Clohessy-Wiltshire, none, Sun, Moon, 9 frame conversions, station, ephemeris interpolation, event detection, TLE writing, CCSDS OPM/OEM/maneuver round trips, Lambert, LTAN, beta) are run with all-UTC labels and with the argument date and/or the epoch relabelled in each of the 6 scales (relabelled dates built from an independent IERS parser); results must agree within the time resolution. Same cases under real IERS tables and under a constant EOP record; endless loops are observed through logical step budgets. Held-on-observed; one open known finding (EOP day lookup by label).",
        "note": "trusted: the all-UTC run as baseline (differential), vmon/oracles/timescales.py for relabelling; tolerances = speed x time resolution (5 us; 100 us for quantities the library derives from a float Julian date)",
        "technique": "differential-history / metamorphic monitor over relabelled dates, with step-budget probes",
    },
    "C20": {
        "text": "Invariant hook on the real Node.__add__: after EVERY link insertion all ordered node pairs are checked against a BFS reference (route exists iff connected, path is a chain of existing links, unique tree chain / shortest chain, steps() consistent). Exhaustive over every unlabelled tree shape with <= 6 (quick) / <= 7 (thorough) nodes x every insertion order x every orientation, sampled for 7 / 8 nodes; every connected labelled graph on <= 5 / <= 6 nodes with sampled orders. Real registries: random interleavings of station / orbit-frame / body-frame registrations; conversions between pre-existing frames must stay bitwise identical and every new frame must round-trip to every old one. One open known finding (non-shortest route on cyclic graphs).",
        "note": "trusted: BFS reference (vmon/oracles/graph.py); label equivariance of Node (names compared for equality only) lets unlabelled shapes with permuted names stand for labelled trees; 8-node trees are sampled, not exhaustive",
        "technique": "invariant monitor hooked on Node.__add__ over exhaustively enumerated insertion histories + differential monitor on the real frame registries",
    },
    "C11": {
        "text": "Reference-model monitor: stations created by the real create_station at generated latitudes (incl. +-89.9999, 0), longitudes [-180,360], altitudes [-400, 9000] m are compared with an independent WGS-84 model (reduced-latitude forward formula, Bowring inverse, explicit ENU basis): ECEF position, rest in ITRF, w x r motion in inertial frames; range / azimuth / elevation / range-rate of targets in all octants given in ITRF, WGS84, EME2000, TEME; Range/Azimut/Elevation/Doppler measures over 1 and 2 legs; get_mask against an own piecewise-linear model with the 2pi==0 wrap for tables of 2..20 azimuths and queries incl. negative and > 2pi. Real and constant EOP. Held-on-observed over ~1.5e3 stations x 28 targets (quick).",
        "note": "trusted: vmon/oracles/geodesy.py (self-checked at start-up), Earth.r / Earth.f read as data; inertial->ITRF maps of the library are C02's subject and are used as given",
        "technique": "reference-model monitor (independent WGS-84 geodesy and mask model) over generated stations/targets",
    },
    "C16": {
        "text": "Reference-model monitor: states returned by the real Clohessy-Wiltshire propagator are compared with an independent solution of Hill's equations (own matrix exponential of the vector-form ODE, no closed-form CW matrix), ODE residuals by finite differences with and without constant thrust, composition / inverse, impulse jump at t_m +- 1 us, TNW = axis permutation of QSW, second-order agreement with the difference of two universal-variable Kepler orbits for separations 10 m .. 5 km, and every CWHelper maneuver (coelliptic, Hohmann, eccentric/tangential boosts, V-bar; impulsive and continuous) against the displacement it announces. Held-on-observed except three open known findings (composition / inverse across an applied maneuver, impulse inside a burn).",
        "note": "trusted: vmon/oracles/hill.py (vector-form Hill ODE + scaling-and-squaring exponential), vmon/oracles/kepler_uv.py",
        "technique": "reference-model monitor (independent Hill ODE solution) + ODE-residual checker on the propagated trajectory",
    },
    "C17": {
        "text": "Definitions monitor: QSW/TNW matrices of generated elliptic and hyperbolic states vs the axis definitions; orbit-attached frames (None/QSW/TNW, moving and static, nested parents) place the orbit at the origin and round-trip; ImpulsiveMan.dv / ContinuousMan.accel vs stated vector and axes; hooks on KeplerNum._make_step and ImpulsiveMan.dv count maneuver applications per step in all four integrators (exactly once, no later than one step, burn window and on-time); dkep2dv/dkep2aol/KeplerianImpulsiveMan finite and first-order correct from 1 m / 1e-6 rad upwards at any anomaly. Step budgets turn endless loops into observations.",
        "note": "trusted: axis definitions re-derived in vmon/oracles/hill.py, vmon/oracles/elements.py for achieved element increments, Runge-Kutta stage weights typed from the literature for the burn on-time bound",
        "technique": "definition monitor + invariant hooks on KeplerNum._make_step / ImpulsiveMan.dv",
    },
    "C18": {
        "text": "Reference-model monitor: the DE403 kernel is opened directly with jplephem and segments are chained by an own BFS (signs, km->m, km/day->m/s, own TDB); compared with beyond.env.jpl (get_orbit, create_frames, copy(frame=<body>)) for all 240 ordered pairs of the 16 kernel bodies, both directions, dates over 2000-2020, labels TDB/TT/TAI/GPS/UTC, configurations bsp / bsp+pck / dynamic_frames. Analytical Sun and Moon vs DE403 within the statement's series accuracy, velocity vs d/dt of position.",
        "note": "trusted: jplephem + the DE403 kernel file, own leap-second table and IAU-76 precession in vmon/oracles/jpl_ref.py; the statement's own accuracies (0.02 deg / 1e-4; 0.7 deg / 0.5 %) are the tolerances",
        "technique": "reference-model monitor (direct SPK segment chaining) over all body pairs",
    },
    "C19": {
        "text": "Consistency monitors: Lambert velocities are propagated with an independent universal-variable propagator for the transfer time and must arrive within 10 m (Earth and Sun, prograde/retrograde, short/long way), with a hook on the solver's Newton iteration; sso self-inverse in its three modes and node rate = mean solar rate (also through the J2 propagator); B-plane geometry for e in [1.05,10] at any anomaly; ltan<->raan inverses (mean/true); all Walker Star/Delta triples t<=60 exhaustively; beta in [-90,90] deg = elevation above the orbit plane incl. the body on the orbit normal.",
        "note": "trusted: vmon/oracles/kepler_uv.py; the sidereal year (2 pi / 365.256363004 d) is accepted as 'mean solar rate' as in the design; Lambert tolerance widened to 10 m + 2e-9 (r0+r1) only for ill-conditioned heliocentric transfers (measured floor of a converged solver 1.1e-11 (r0+r1))",
        "technique": "reference-model monitor (independent two-body propagation of the solver's output) + exhaustive enumeration of Walker triples",
    },
}
NOT_APPLICABLE = {}
