CHECKS = {
    "C01": {
        "text": "Every generated orbit (6 eccentricity classes x 5 inclination classes x anomaly classes incl. |H| up to 10, 4 central bodies) is pushed through all 10x10 ordered form pairs of the real code, in place and by copy; each form's six numbers are compared with an independent vector-definition model, the round trip with the truth cartesian state, the walked conversion edges with the unique tree path, and the Infos quantities with their defining relations. Held-on-observed for ~3e3 (quick) / ~1e5 (thorough) orbits; sampling of a real-valued space, not a proof.",
        "note": "trusted: vmon/oracles/elements.py (textbook definitions), numpy; body constants read as data; tle/mean_circular treated as undefined for hyperbolas",
        "technique": "reference-model monitor + invariant hooks on Form._x_to_y edges",
    },
    "C03": {
        "text": "Every day of the IERS tables is read through Date(...).eop and compared with an independent column parser; for generated instants (uniform 1973-2017, biased to UTC midnights, leap windows excluded) all 36 ordered scale pairs are converted by the real code and the offset, same-instant and round-trip clauses checked against the tables under real, zero and constant EOP; arithmetic laws, ordering/equality/hash consistency across labels, DateRange length/iteration/membership against an integer-microsecond model for both step signs, and the missing-data policies are observed. Held-on-observed over ~5e4 (quick) / ~5e5 (thorough) cases; two open known findings are reported as KNOWN-FINDING.",
        "note": "trusted: vmon/oracles/timescales.py (IERS readme columns, fixed offsets, Almanac TDB-TT), python datetime microsecond arithmetic; leap seconds excluded by 2-minute windows as the quantifier says",
        "technique": "reference-model monitor (own IERS table parser, integer-microsecond range model) over generated instants",
    },
}
NOT_APPLICABLE = {}
